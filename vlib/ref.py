# -*- coding: utf-8 -*-
"""Reference models (DESIGN.md §2.4).  Written from the property statements: plain dictionary DP over all
in-band pairs, explicit path enumeration, no rolling buffers, no pruning, no compact layouts, no NumPy."""
import math

inf = float('inf')


# ------------------------------------------------------------------------------------------------------
# inner distances (own implementation; the library's classes are not used)
# ------------------------------------------------------------------------------------------------------
def _vec(x):
    return x if isinstance(x, (list, tuple)) else None


def _sq(x, y):
    if isinstance(x, (list, tuple)):
        t = 0.0
        for a, b in zip(x, y):
            t += (a - b) * (a - b)
        return t
    return (x - y) * (x - y)


def _eu(x, y):
    if isinstance(x, (list, tuple)):
        return math.sqrt(_sq(x, y))
    return abs(x - y)


def _cube(x, y):
    return abs(x - y) ** 3


def _dbl(x, y):
    return 2.0 * abs(x - y)


def cbrt(v):
    if isinstance(v, float) and math.isinf(v):
        return v
    return v ** (1.0 / 3.0)


# name -> (point distance, result transform, transform of settings values (penalty, max_step, max_dist))
INNER = {
    'squared euclidean': (_sq, lambda v: math.sqrt(v) if v != inf else inf, lambda v: v * v),
    'euclidean': (_eu, lambda v: v, lambda v: v),
    'custom_cubic': (_cube, cbrt, lambda v: v * v * v),
    'custom_double': (_dbl, lambda v: v / 2.0, lambda v: 2.0 * v),
    # further user-supplied objects (vlib/inner.py): a second class-form object and two instances of one class
    'custom_abs': (lambda x, y: abs(x - y), lambda v: v, lambda v: v),
    'custom_pow1.5': (lambda x, y: abs(x - y) ** 1.5, lambda v: v ** (1 / 1.5) if v != inf else inf, lambda v: v ** 1.5),
    'custom_pow4': (lambda x, y: abs(x - y) ** 4, lambda v: v ** 0.25 if v != inf else inf, lambda v: v ** 4),
}


def norm_psi(psi):
    """psi as given to the library (None, int, 4-sequence) -> (p1b, p1e, p2b, p2e)."""
    if psi is None:
        return (0, 0, 0, 0)
    if isinstance(psi, int):
        return (psi, psi, psi, psi)
    return tuple(psi)


def degenerate_psi(l1, l2, psi4):
    """The relaxed matrix admits an *empty* alignment exactly in these combinations (excluded by the
    properties)."""
    p1b, p1e, p2b, p2e = psi4
    return (p1b >= l1 and p2e >= l2) or (p2b >= l2 and p1e >= l1)


def band(i, l1, l2, w):
    """Documented window band: columns j allowed for row i (half-open)."""
    if w is None:
        return 0, l2
    return max(0, i - max(0, l1 - l2) - w + 1), min(l2, i + max(0, l2 - l1) + w)


def in_band(i, j, l1, l2, w):
    a, b = band(i, l1, l2, w)
    return a <= j < b


def ref_cells(s1, s2, window=None, penalty=None, psi=None, max_step=None, inner='squared euclidean', bandfn=None):
    """Accumulated cost (internal representation) of the best admissible partial path ending at each pair.

    Returns dict {(i, j): cost}; pairs that no admissible path reaches are absent.
    bandfn(i) -> (a, b) overrides the documented band (used only for defect models of known findings)."""
    dist, _res, ival = INNER[inner]
    l1, l2 = len(s1), len(s2)
    pen = ival(penalty) if penalty else 0.0
    ms = ival(max_step) if max_step else inf
    p1b, p1e, p2b, p2e = norm_psi(psi)
    R = {}
    for i in range(l1):
        a, b = bandfn(i) if bandfn else band(i, l1, l2, window)
        for j in range(a, b):
            d = dist(s1[i], s2[j])
            if d > ms:
                continue
            best = inf
            if (i == 0 and j <= p2b) or (j == 0 and i <= p1b):
                best = 0.0
            v = R.get((i - 1, j - 1))
            if v is not None and v < best:
                best = v
            v = R.get((i - 1, j))
            if v is not None and v + pen < best:
                best = v + pen
            v = R.get((i, j - 1))
            if v is not None and v + pen < best:
                best = v + pen
            if best < inf:
                R[(i, j)] = d + best
    return R


def end_cells(l1, l2, psi):
    p1b, p1e, p2b, p2e = norm_psi(psi)
    out = []
    for j in range(l2):
        if l2 - 1 - j <= p2e:
            out.append((l1 - 1, j))
    for i in range(l1):
        if l1 - 1 - i <= p1e and (i, l2 - 1) not in out:
            out.append((i, l2 - 1))
    return out


def start_cells(l1, l2, psi):
    p1b, p1e, p2b, p2e = norm_psi(psi)
    out = [(0, j) for j in range(l2) if j <= p2b]
    out += [(i, 0) for i in range(1, l1) if i <= p1b]
    return out


def ref_dtw_internal(s1, s2, window=None, penalty=None, psi=None, max_step=None, max_length_diff=None,
                     inner='squared euclidean', cells=None):
    l1, l2 = len(s1), len(s2)
    if max_length_diff is not None and abs(l1 - l2) > max_length_diff:
        return inf
    R = cells if cells is not None else ref_cells(s1, s2, window, penalty, psi, max_step, inner)
    best = inf
    for c in end_cells(l1, l2, psi):
        v = R.get(c)
        if v is not None and v < best:
            best = v
    return best


def ref_dtw(s1, s2, window=None, penalty=None, psi=None, max_step=None, max_length_diff=None,
            inner='squared euclidean'):
    v = ref_dtw_internal(s1, s2, window, penalty, psi, max_step, max_length_diff, inner)
    return INNER[inner][1](v) if v < inf else inf


def brute_dtw_internal(s1, s2, window=None, penalty=None, psi=None, max_step=None,
                       inner='squared euclidean'):
    """Literal statement of C01/C05: enumerate *all* warping paths. Returns (min cost, #optimal paths)."""
    dist, _res, ival = INNER[inner]
    l1, l2 = len(s1), len(s2)
    pen = ival(penalty) if penalty else 0.0
    ms = ival(max_step) if max_step else inf
    ends = set(end_cells(l1, l2, psi))
    D = {}
    for i in range(l1):
        a, b = band(i, l1, l2, window)
        for j in range(a, b):
            d = dist(s1[i], s2[j])
            if d <= ms:
                D[(i, j)] = d
    best = [inf, 0]

    def rec(i, j, cost):
        d = D.get((i, j))
        if d is None:
            return
        cost = cost + d
        if (i, j) in ends:
            if cost < best[0]:
                best[0] = cost
                best[1] = 1
            elif cost == best[0]:
                best[1] += 1
        rec(i + 1, j + 1, cost)
        rec(i + 1, j, cost + pen)
        rec(i, j + 1, cost + pen)

    for (i, j) in start_cells(l1, l2, psi):
        rec(i, j, 0.0)
    return best[0], best[1]


def psi_beyond_band(l1, l2, w, psi):
    """True when a psi-relaxed corner cell lies outside the window band (psi wider than the band)."""
    p1b, p1e, p2b, p2e = norm_psi(psi)
    corners = []
    if p2b:
        corners.append((0, min(p2b, l2 - 1)))
    if p1b:
        corners.append((min(p1b, l1 - 1), 0))
    if p2e:
        corners.append((l1 - 1, max(0, l2 - 1 - p2e)))
    if p1e:
        corners.append((max(0, l1 - 1 - p1e), l2 - 1))
    return any(not in_band(i, j, l1, l2, w) for i, j in corners)


def c_wps_band(l1, l2, w):
    """The band that the C warping-paths kernels (compact layout, regions A-D of dtw_wps_parts) actually fill,
    transcribed from dd_dtw.c. Used only as defect model of known finding F04c."""
    m = max(l1, l2)
    window = m if not w else min(w, m)
    ldiff = abs(l1 - l2)
    ldiffr = l1 - l2 if l1 > l2 else 0
    ldiffc = l2 - l1 if l2 > l1 else 0
    ol = min(window + ldiffr, l1 + 1)
    orr = max(l1 + 1 - window - ldiffr, 0) if window + ldiffr <= l1 else 0
    ri1 = min(l1, min(ol, orr))
    ri2 = min(l1, ol)
    ri3 = min(l1, max(ol, orr))
    out = []
    for ri in range(l1):
        if ri < ri1:
            out.append((0, min(l2, window + ldiffc + ri)))
        elif ri < ri2:
            out.append((0, l2))
        elif ri < ri3:
            out.append((1 + ri - ri2, min(l2, 2 * window + ldiff + ri - ri2)))
        else:
            m0 = max(0, ri3 + 1 - window - ldiff) if ri2 == ri3 else 1 + ri3 - ri2
            out.append((m0 + ri - ri3, l2))
    return out


# ------------------------------------------------------------------------------------------------------
# comparisons (DESIGN.md §2.5)
# ------------------------------------------------------------------------------------------------------
RTOL = 1e-9


def close(a, b, rtol=RTOL):
    if a is None or b is None:
        return False
    try:
        a = float(a)
        b = float(b)
    except (TypeError, ValueError):
        return False
    if math.isnan(a) or math.isnan(b):
        return False
    if math.isinf(a) or math.isinf(b):
        return a == b
    return abs(a - b) <= rtol * max(1.0, abs(a), abs(b))


def leq(a, b, rtol=RTOL):
    """a <= b up to tolerance; inf ordered last."""
    a = float(a)
    b = float(b)
    if math.isnan(a) or math.isnan(b):
        return False
    if b == inf:
        return True
    if a == inf:
        return False
    return a <= b + rtol * max(1.0, abs(a), abs(b))


# ------------------------------------------------------------------------------------------------------
# bounds
# ------------------------------------------------------------------------------------------------------
def ref_ed_internal(s1, s2, inner='squared euclidean'):
    dist = INNER[inner][0]
    n = min(len(s1), len(s2))
    t = 0.0
    for k in range(n):
        t += dist(s1[k], s2[k])
    for k in range(n, len(s1)):
        t += dist(s1[k], s2[n - 1])
    for k in range(n, len(s2)):
        t += dist(s1[n - 1], s2[k])
    return t


def ref_ed(s1, s2, inner='squared euclidean'):
    return INNER[inner][1](ref_ed_internal(s1, s2, inner))


def ref_lb_keogh(s1, s2, window=None, inner='squared euclidean'):
    """LB_Keogh of s1 against the envelope of s2 taken over the window band (1-D)."""
    dist, res, _ = INNER[inner]
    l1, l2 = len(s1), len(s2)
    t = 0.0
    for i in range(l1):
        a, b = band(i, l1, l2, window)
        seg = s2[a:b]
        if not seg:
            continue
        u, lo = max(seg), min(seg)
        if s1[i] > u:
            t += dist(s1[i], u)
        elif s1[i] < lo:
            t += dist(s1[i], lo)
    return res(t)


# ------------------------------------------------------------------------------------------------------
# path predicates (C05)
# ------------------------------------------------------------------------------------------------------
def path_problems(path, s1, s2, window=None, penalty=None, psi=None, max_step=None,
                  inner='squared euclidean', end=None):
    """Validity of a reported warping path; returns (list of problems, internal cost)."""
    dist, _res, ival = INNER[inner]
    l1, l2 = len(s1), len(s2)
    pen = ival(penalty) if penalty else 0.0
    ms = ival(max_step) if max_step else inf
    probs = []
    try:
        path = [(int(a), int(b)) for a, b in path]
    except Exception as e:  # not a sequence of pairs
        return ['malformed path: %r' % (e,)], None
    if not path:
        return ['empty path'], None
    for (i, j) in path:
        if not (0 <= i < l1 and 0 <= j < l2):
            probs.append('pair (%d,%d) outside the series' % (i, j))
            return probs, None
    if path[0] not in start_cells(l1, l2, psi):
        probs.append('first pair %s not in the psi-relaxed start corner' % (path[0],))
    if end is None:
        if path[-1] not in end_cells(l1, l2, psi):
            probs.append('last pair %s not in the psi-relaxed end corner' % (path[-1],))
    elif path[-1] != tuple(end):
        probs.append('last pair %s != requested end %s' % (path[-1], tuple(end)))
    cost = 0.0
    prev = None
    for (i, j) in path:
        if not in_band(i, j, l1, l2, window):
            probs.append('pair (%d,%d) outside the window band' % (i, j))
        d = dist(s1[i], s2[j])
        if d > ms:
            probs.append('pair (%d,%d) exceeds max_step' % (i, j))
        cost += d
        if prev is not None:
            st = (i - prev[0], j - prev[1])
            if st not in ((1, 1), (1, 0), (0, 1)):
                probs.append('illegal step %s -> %s' % (prev, (i, j)))
            elif st != (1, 1):
                cost += pen
        prev = (i, j)
    return probs, cost


# ------------------------------------------------------------------------------------------------------
# optimal path counting (C12: the DBA defining equation is only owed when optimal paths are unique)
# ------------------------------------------------------------------------------------------------------
def ref_unique_path(s1, s2, window=None, penalty=None, inner='squared euclidean'):
    """(internal cost, path) with path = the optimal warping path if it is unique (exact ties counted), else None.
    No psi, no max_step."""
    dist, _res, ival = INNER[inner]
    l1, l2 = len(s1), len(s2)
    pen = ival(penalty) if penalty else 0.0
    R = {}
    N = {}
    P = {}
    for i in range(l1):
        a, b = band(i, l1, l2, window)
        for j in range(a, b):
            d = dist(s1[i], s2[j])
            cands = []
            if i == 0 and j == 0:
                cands.append((0.0, 1, None))
            for (pi, pj, extra) in ((i - 1, j - 1, 0.0), (i - 1, j, pen), (i, j - 1, pen)):
                v = R.get((pi, pj))
                if v is not None:
                    cands.append((v + extra, N[(pi, pj)], (pi, pj)))
            if not cands:
                continue
            best = min(c[0] for c in cands)
            tied = [c for c in cands if c[0] == best or abs(c[0] - best) <= 1e-12 * max(1.0, abs(best))]
            R[(i, j)] = d + best
            N[(i, j)] = sum(c[1] for c in tied)
            P[(i, j)] = tied[0][2]
    end = (l1 - 1, l2 - 1)
    if end not in R:
        return None, None
    if N[end] != 1:
        return R[end], None
    path = []
    cur = end
    while cur is not None:
        path.append(cur)
        cur = P[cur]
    path.reverse()
    return R[end], path
