# -*- coding: utf-8 -*-
"""Runner (DESIGN.md §2.2, §2.6, §2.7): seeds, sharding, collect -> bucket -> shrink, replay, evidence,
known findings.

A property module exposes

    PROPERTY = 'C01'
    NEED_C   = True/False
    RULE     = '<how cases are generated and what makes one non-trivial>'
    ASSUMPTIONS = [...]
    def legs(tier) -> [Leg, ...]
    REGIONS  = {'name': predicate(case, bucket) -> bool}      (regions of open known findings)

A Leg couples a Hypothesis strategy (producing JSON-able dict cases) with a plain oracle function
run(case) -> Res that never raises for a failure of the property (it records it in Res.failures with a
bucket key); an exception escaping run() is a harness error (exit 2).
"""
import hashlib
import json
import math
import mmap
import os
import pickle
import signal
import shutil
import sys
import tempfile
import time
import traceback
import multiprocessing as mp

# seconds of minimisation per failure bucket (see shrinkrun)
SHRINK_BUDGET_S = float(os.environ.get('VERIF_SHRINK_BUDGET', '60'))

ROOT = os.path.dirname(os.path.dirname(os.path.abspath(__file__)))
KNOWN_FILE = os.path.join(ROOT, 'KNOWN_FINDINGS.jsonl')
INFLIGHT_SIZE = 1 << 20


class HarnessError(Exception):
    pass


class CaseTimeout(BaseException):
    """Raised by the per-case alarm; BaseException so that no `except Exception` around a library call swallows it."""


CASE_LIMIT = float(os.environ.get('VERIF_CASE_LIMIT', '180'))


def _on_alarm(signum, frame):
    # a single generated case ran for minutes although cases take milliseconds: by the brief a time budget hit is
    # "inconclusive" (exit 2), never a violation
    raise CaseTimeout('a single case exceeded %.0f s (inconclusive)' % CASE_LIMIT)


class Res:
    """Outcome of one oracle evaluation."""
    __slots__ = ('failures', 'nontrivial', 'classes', 'counters', 'skipped', 'repros', 'nt_count')

    def __init__(self):
        self.failures = []      # [(bucket, message)]
        self.nontrivial = False
        self.classes = []       # labels for the histogram
        self.counters = {}      # name -> int (summed into evidence)
        self.skipped = None     # finding id when the case was not executed (memory-unsafe known region)
        self.repros = {}        # bucket -> (leg, case) stand-alone reproducer
        self.nt_count = None    # for campaign legs: number of distinct non-trivial sub-cases they executed

    def fail(self, bucket, msg, repro=None):
        """repro: optional (leg name, case) that reproduces this failure on its own (used by legs whose cases are
        whole campaigns, e.g. native sweeps: the replay file then holds the single failing input)."""
        self.failures.append((str(bucket), str(msg)[:600]))
        if repro is not None:
            self.repros[str(bucket)] = repro

    def count(self, name, n=1):
        self.counters[name] = self.counters.get(name, 0) + n

    def cls(self, *names):
        self.classes.extend(names)


class Leg:
    def __init__(self, name, strategy, run, n_quick, n_thorough, max_shrink_buckets=4, cases=None):
        self.name = name
        self.strategy = strategy
        self.run = run
        self.n = {'quick': n_quick, 'thorough': n_thorough}
        self.max_shrink_buckets = max_shrink_buckets
        # enumerated leg: `cases` (a list, or a callable returning one) is run completely, sharded over the
        # workers, without Hypothesis (finite sub-spaces that are enumerated exhaustively)
        self.cases = cases
        self.essential = {}


def libcall(fn, *a, **kw):
    """Call into the library. Returns (value, None) or (None, bucket-string) when the library raised."""
    try:
        return fn(*a, **kw), None
    except Exception as e:  # noqa - every library exception for an in-domain input is a property failure
        where = '?'
        for fr in reversed(traceback.extract_tb(e.__traceback__)):
            if 'dtaidistance' in fr.filename:
                where = '%s:%s' % (os.path.basename(fr.filename), fr.name)
                break
        return None, 'exc:%s@%s' % (type(e).__name__, where)


def canon(case):
    return json.dumps(case, sort_keys=True, default=_json_default)


def _json_default(o):
    try:
        import numpy as np
        if isinstance(o, np.generic):
            return o.item()
        if isinstance(o, np.ndarray):
            return o.tolist()
    except ImportError:
        pass
    if isinstance(o, (set, frozenset)):
        return sorted(o)
    if isinstance(o, tuple):
        return list(o)
    return repr(o)


def case_hash(case):
    return hashlib.sha1(canon(case).encode()).hexdigest()[:16]


def json_safe(o):
    """Make floats JSON-schema friendly (inf/nan -> strings) for evidence files."""
    if isinstance(o, float):
        if math.isinf(o) or math.isnan(o):
            return repr(o)
        return o
    if isinstance(o, dict):
        return {str(k): json_safe(v) for k, v in o.items()}
    if isinstance(o, (list, tuple)):
        return [json_safe(v) for v in o]
    return o


# ------------------------------------------------------------------------------------------------------
# known findings
# ------------------------------------------------------------------------------------------------------
def load_known(prop):
    out = []
    if os.path.exists(KNOWN_FILE):
        for ln in open(KNOWN_FILE):
            ln = ln.strip()
            if not ln or ln.startswith('#'):
                continue
            if ln.startswith('fixed:'):
                continue
            d = json.loads(ln)
            if d.get('property') == prop:
                out.append(d)
    return out


class Known:
    """Open findings of one property, with their region predicates."""

    def __init__(self, mod, stale=()):
        self.entries = [e for e in load_known(mod.PROPERTY) if e.get('status') == 'open']
        self.regions = getattr(mod, 'REGIONS', {})
        self.stale = set(stale)

    def match(self, leg, case, bucket):
        for e in self.entries:
            if e['id'] in self.stale:
                continue
            pred = self.regions.get(e.get('region'))
            if pred is None:
                continue
            legs = e.get('legs')
            if legs and leg not in legs:
                continue
            try:
                if pred(case, bucket):
                    return e['id']
            except Exception as ex:
                raise HarnessError('region predicate %s raised %r' % (e.get('region'), ex))
        return None


# ------------------------------------------------------------------------------------------------------
# worker
# ------------------------------------------------------------------------------------------------------
class _Inflight:
    def __init__(self, path):
        self.f = open(path, 'w+b')
        self.f.truncate(INFLIGHT_SIZE)
        self.m = mmap.mmap(self.f.fileno(), INFLIGHT_SIZE)

    def set(self, leg, case):
        b = json.dumps({'leg': leg, 'case': case}, default=_json_default).encode()
        if len(b) + 8 > INFLIGHT_SIZE:
            b = b'{}'
        self.m[0:8] = len(b).to_bytes(8, 'little')
        self.m[8:8 + len(b)] = b

    @staticmethod
    def read(path):
        try:
            with open(path, 'rb') as f:
                n = int.from_bytes(f.read(8), 'little')
                if n <= 0:
                    return None
                return json.loads(f.read(n).decode())
        except Exception:
            return None


def _hyp_settings(n, shrink):
    from hypothesis import settings, HealthCheck, Phase
    phases = [Phase.generate, Phase.shrink] if shrink else [Phase.generate]
    return settings(max_examples=n, database=None, deadline=None, derandomize=False,
                    report_multiple_bugs=False, phases=phases, print_blob=False,
                    suppress_health_check=list(HealthCheck))


def _collect_leg(leg, n, seed, known, inflight, out, shard=(0, 1)):
    from hypothesis import given, seed as hseed
    st_out = out.setdefault(leg.name, {'evaluations': 0, 'nt_hashes': set(), 'classes': {}, 'counters': {},
                                       'excluded': {}, 'skipped': {}, 'new': {}, 'samples': [],
                                       'excluded_samples': {}})

    def record(case, res):
        st_out['evaluations'] += 1
        if res.skipped:
            st_out['skipped'][res.skipped] = st_out['skipped'].get(res.skipped, 0) + 1
        for c in res.classes:
            st_out['classes'][c] = st_out['classes'].get(c, 0) + 1
        for k, v in res.counters.items():
            st_out['counters'][k] = st_out['counters'].get(k, 0) + v
        if res.nontrivial:
            h = case_hash(case)
            if h not in st_out['nt_hashes']:
                st_out['nt_hashes'].add(h)
                if len(st_out['samples']) < 3:
                    st_out['samples'].append(case)
        newb = []
        for bucket, msg in res.failures:
            rleg, rcase = res.repros.get(bucket, (leg.name, case))
            fid = known.match(rleg, rcase, bucket)
            if fid:
                st_out['excluded'][fid] = st_out['excluded'].get(fid, 0) + 1
                if fid not in st_out['excluded_samples']:
                    st_out['excluded_samples'][fid] = {'case': rcase, 'bucket': bucket, 'msg': msg}
            else:
                newb.append((bucket, msg, rleg, rcase))
        return newb

    def note_new(case, res):
        for bucket, msg, rleg, rcase in record(case, res):
            ent = st_out['new'].setdefault(bucket, {'count': 0, 'case': rcase, 'msg': msg, 'leg': rleg})
            ent['count'] += 1
            if len(canon(rcase)) < len(canon(ent['case'])):
                ent['case'] = rcase
                ent['msg'] = msg
                ent['leg'] = rleg
        if res.nt_count is not None:
            st_out['nt_extra'] = st_out.get('nt_extra', 0) + res.nt_count

    if leg.cases is not None:
        widx, nworkers = shard
        allc = leg.cases() if callable(leg.cases) else leg.cases
        for case in allc[widx::nworkers]:
            inflight.set(leg.name, case)
            note_new(case, leg.run(case))
        st_out['enumerated'] = len(allc)
        return

    @hseed(seed)
    @_hyp_settings(n, shrink=False)
    @given(leg.strategy)
    def collect(case):
        inflight.set(leg.name, case)
        signal.setitimer(signal.ITIMER_REAL, CASE_LIMIT)
        try:
            note_new(case, leg.run(case))
        finally:
            signal.setitimer(signal.ITIMER_REAL, 0)

    collect()

    # shrink every new bucket (Hypothesis stops at the first failure, hence one run per bucket)
    for bucket in sorted(st_out['new'], key=lambda b: -st_out['new'][b]['count'])[:leg.max_shrink_buckets]:
        if st_out['new'][bucket].get('leg', leg.name) != leg.name:
            continue
        last = {}

        @hseed(seed)
        @_hyp_settings(n, shrink=True)
        @given(leg.strategy)
        def shrinkrun(case):
            # minimisation budget per bucket (large generated cases - dozens of series - can keep the shrinker busy for
            # its full five minutes): once it is used up the remaining attempts are not executed, and the smallest
            # failing case seen so far becomes the replay file. The verdict does not depend on it, only how small the
            # reproducer is.
            if 't0' in last and time.time() - last['t0'] > SHRINK_BUDGET_S:
                return
            inflight.set(leg.name, case)
            res = leg.run(case)
            for b, msg in res.failures:
                if b == bucket and not known.match(leg.name, case, b):
                    last['case'] = case
                    last['msg'] = msg
                    last.setdefault('t0', time.time())
                    raise AssertionError(msg)

        try:
            shrinkrun()
        except AssertionError:
            pass
        except Exception as e:  # hypothesis wraps some errors
            if 'case' not in last:
                raise HarnessError('shrink run failed: %r' % (e,))
        if 'case' in last:
            st_out['new'][bucket]['case'] = last['case']
            st_out['new'][bucket]['msg'] = last['msg']
            st_out['new'][bucket]['shrunk'] = True


def _worker_main(modname, tier, widx, nworkers, seed, stale, rundir, stage_dir):
    try:
        sys.path.insert(0, stage_dir)
        os.environ['VERIF_STAGE_DIR'] = stage_dir
        import importlib
        import logging
        logging.getLogger('be.kuleuven.dtai.distance').setLevel(logging.CRITICAL)
        signal.signal(signal.SIGALRM, _on_alarm)
        # the library prints progress / warnings (also from C): keep the check's stdout for the verdict lines only
        dn = os.open(os.devnull, os.O_WRONLY)
        os.dup2(dn, 1)
        mod = importlib.import_module(modname)
        known = Known(mod, stale)
        inflight = _Inflight(os.path.join(rundir, 'w%d.inflight' % widx))
        out = {}
        for leg in mod.legs(tier):
            n = leg.n[tier]
            per = max(1, -(-n // nworkers))
            if leg.cases is None and n < nworkers and widx >= n:
                continue
            _collect_leg(leg, per, seed * 1000 + widx, known, inflight, out, (widx, nworkers))
        with open(os.path.join(rundir, 'w%d.result' % widx), 'wb') as f:
            pickle.dump({'ok': True, 'out': out}, f)
    except BaseException as e:  # harness error inside the worker
        with open(os.path.join(rundir, 'w%d.result' % widx), 'wb') as f:
            pickle.dump({'ok': False, 'err': ''.join(traceback.format_exception(type(e), e, e.__traceback__))}, f)
        sys.exit(3)


def _replay_main(modname, tier, items, rundir, stage_dir, tag):
    """Run plain oracle functions on saved cases (witnesses / fixed regressions / --replay)."""
    try:
        sys.path.insert(0, stage_dir)
        os.environ['VERIF_STAGE_DIR'] = stage_dir
        import importlib
        mod = importlib.import_module(modname)
        legs = {l.name: l for l in mod.legs(tier)}
        inflight = _Inflight(os.path.join(rundir, '%s.inflight' % tag))
        import logging
        logging.getLogger('be.kuleuven.dtai.distance').setLevel(logging.CRITICAL)
        dn = os.open(os.devnull, os.O_WRONLY)
        os.dup2(dn, 1)
        results = []
        for path, item in items:
            leg = legs.get(item.get('leg'))
            if leg is None:
                results.append((path, None, 'unknown leg %r' % item.get('leg')))
                continue
            inflight.set(leg.name, item['case'])
            res = leg.run(item['case'])
            results.append((path, res.failures, None))
        with open(os.path.join(rundir, '%s.result' % tag), 'wb') as f:
            pickle.dump({'ok': True, 'results': results}, f)
    except BaseException as e:
        with open(os.path.join(rundir, '%s.result' % tag), 'wb') as f:
            pickle.dump({'ok': False, 'err': ''.join(traceback.format_exception(type(e), e, e.__traceback__))}, f)
        sys.exit(3)


def _run_proc(target, args, rundir, tag, timeout):
    ctx = mp.get_context('fork')
    p = ctx.Process(target=target, args=args)
    p.start()
    p.join(timeout)
    if p.is_alive():
        p.kill()
        p.join()
        raise HarnessError('%s timed out (inconclusive)' % tag)
    rp = os.path.join(rundir, '%s.result' % tag)
    if os.path.exists(rp):
        r = pickle.load(open(rp, 'rb'))
        if not r['ok']:
            raise HarnessError(r['err'])
        return r, None
    return None, (p.exitcode, _Inflight.read(os.path.join(rundir, '%s.inflight' % tag)))


# ------------------------------------------------------------------------------------------------------
# main entry
# ------------------------------------------------------------------------------------------------------
def _write_replay(prop, leg, case, bucket, msg):
    d = os.path.join(ROOT, 'replays', prop)
    os.makedirs(d, exist_ok=True)
    item = {'property': prop, 'leg': leg, 'bucket': bucket, 'msg': msg, 'case': case}
    h = hashlib.sha1(canon(item).encode()).hexdigest()[:12]
    path = os.path.join(d, '%s.json' % h)
    with open(path, 'w') as f:
        json.dump(item, f, indent=1, default=_json_default)
    return os.path.relpath(path, ROOT)


def _load_items(paths):
    items = []
    for p in paths:
        with open(p) as f:
            items.append((p, json.load(f)))
    return items


def main(mod, tier, replay=None):
    from . import stage
    t0 = time.time()
    prop = mod.PROPERTY
    seed = int(os.environ.get('VERIF_SEED', '1'))
    os.environ.setdefault('PYTHONHASHSEED', '0')
    nworkers = int(os.environ.get('VERIF_WORKERS', str(min(16, os.cpu_count() or 1))))
    try:
        stage_dir, c_hash, full_hash = stage.ensure_stage(need_c=getattr(mod, 'NEED_C', True))
    except stage.StageError as e:
        print('HARNESS-ERROR: %s' % e)
        return 2
    if hasattr(mod, 'prepare'):
        try:
            mod.prepare(tier, stage_dir)   # e.g. native harness builds
        except Exception as e:
            print('HARNESS-ERROR: prepare failed: %s' % e)
            traceback.print_exc()
            return 2
    rundir = tempfile.mkdtemp(prefix='run-%s-' % prop, dir=stage.CACHE)
    modname = mod.__name__
    violations = []
    known_lines = []
    try:
        # ---- explicit replay -------------------------------------------------------------------------
        if replay:
            items = _load_items([replay])
            r, crash = _run_proc(_replay_main, (modname, tier, items, rundir, stage_dir, 'replay'), rundir,
                                 'replay', 1800)
            if crash:
                print('replayed case crashed the process (exit code %s)' % crash[0])
                print('VIOLATION property=%s replay=%s' % (prop, replay))
                return 1
            path, fails, err = r['results'][0]
            if err:
                print('HARNESS-ERROR: %s' % err)
                return 2
            if fails:
                for b, m in fails:
                    print('  [%s] %s' % (b, m))
                print('VIOLATION property=%s replay=%s' % (prop, replay))
                return 1
            print('replay %s: property holds' % replay)
            return 0

        # ---- witnesses of open findings, regression cases of fixed ones ------------------------------
        known = Known(mod)
        stale = []
        wit = []
        for e in known.entries:
            w = e.get('witness')
            if w and os.path.exists(os.path.join(ROOT, w)):
                wit.append((e, os.path.join(ROOT, w)))
            else:
                raise HarnessError('open finding %s has no witness file' % e['id'])
        fixed_dir = os.path.join(ROOT, 'replays', prop, 'fixed')
        fixed = sorted(os.path.join(fixed_dir, f) for f in os.listdir(fixed_dir)) if os.path.isdir(fixed_dir) else []
        fixed = [f for f in fixed if f.endswith('.json')]
        items = _load_items([w for _, w in wit] + fixed)
        fixed_replayed = 0
        if items:
            r, crash = _run_proc(_replay_main, (modname, tier, items, rundir, stage_dir, 'pre'), rundir, 'pre',
                                 1800)
            if crash:
                code, inf = crash
                # a crash while replaying: attribute it to the case in flight
                p = _write_replay(prop, (inf or {}).get('leg', '?'), (inf or {}).get('case'), 'crash',
                                  'process died with exit code %s while replaying saved cases' % code)
                violations.append(p)
            else:
                res = {p: (f, err) for p, f, err in r['results']}
                for e, w in wit:
                    f, err = res[w]
                    if err:
                        raise HarnessError(err)
                    if f:
                        known_lines.append('KNOWN-FINDING: property=%s %s %s' % (prop, e['id'], e['what']))
                    else:
                        stale.append(e['id'])
                        print('NOTE: witness of open finding %s no longer fails; its region is not excluded '
                              'in this run' % e['id'])
                for p in fixed:
                    f, err = res[p]
                    if err:
                        raise HarnessError(err)
                    fixed_replayed += 1
                    if f:
                        for b, m in f:
                            print('  regression [%s] %s' % (b, m))
                        violations.append(os.path.relpath(p, ROOT))

        # ---- generated search ------------------------------------------------------------------------
        ctx = mp.get_context('fork')
        procs = []
        for w in range(nworkers):
            p = ctx.Process(target=_worker_main,
                            args=(modname, tier, w, nworkers, seed, stale, rundir, stage_dir))
            p.start()
            procs.append(p)
        budget = float(os.environ.get('VERIF_TIMEOUT', '3000' if tier == 'quick' else '20000'))
        merged = {}
        for w, p in enumerate(procs):
            p.join(max(1.0, budget - (time.time() - t0)))
            if p.is_alive():
                for q in procs:
                    q.kill()
                raise HarnessError('worker %d exceeded the safety timeout (inconclusive)' % w)
            rp = os.path.join(rundir, 'w%d.result' % w)
            if not os.path.exists(rp):
                inf = _Inflight.read(os.path.join(rundir, 'w%d.inflight' % w))
                if inf is None:
                    raise HarnessError('worker %d died (exit %s) before running a case' % (w, p.exitcode))
                pth = _write_replay(prop, inf.get('leg'), inf.get('case'), 'crash',
                                    'worker process died with exit code %s while executing this case' % p.exitcode)
                print('  crash: worker %d exit code %s' % (w, p.exitcode))
                violations.append(pth)
                continue
            r = pickle.load(open(rp, 'rb'))
            if not r['ok']:
                raise HarnessError('worker %d: %s' % (w, r['err']))
            for lname, o in r['out'].items():
                m = merged.setdefault(lname, {'evaluations': 0, 'nt_hashes': set(), 'classes': {}, 'counters': {},
                                              'excluded': {}, 'skipped': {}, 'new': {}, 'samples': [],
                                              'excluded_samples': {}})
                m['evaluations'] += o['evaluations']
                if 'enumerated' in o:
                    m['enumerated'] = o['enumerated']
                m['nt_extra'] = m.get('nt_extra', 0) + o.get('nt_extra', 0)
                m['nt_hashes'] |= o['nt_hashes']
                for key in ('classes', 'counters', 'excluded', 'skipped'):
                    for k, v in o[key].items():
                        m[key][k] = m[key].get(k, 0) + v
                for k, v in o['excluded_samples'].items():
                    m['excluded_samples'].setdefault(k, v)
                if len(m['samples']) < 6:
                    m['samples'].extend(o['samples'][:2])
                for b, ent in o['new'].items():
                    cur = m['new'].get(b)
                    if cur is None or (ent.get('shrunk') and not cur.get('shrunk')) or \
                            (bool(ent.get('shrunk')) == bool(cur.get('shrunk'))
                             and len(canon(ent['case'])) < len(canon(cur['case']))):
                        ent = dict(ent)
                        ent['count'] += cur['count'] if cur else 0
                        m['new'][b] = ent
                    else:
                        cur['count'] += ent['count']

        for lname, m in merged.items():
            for b, ent in sorted(m['new'].items()):
                pth = _write_replay(prop, ent.get('leg', lname), ent['case'], b, ent['msg'])
                print('  new failure bucket leg=%s bucket=%s count=%d: %s' % (lname, b, ent['count'], ent['msg']))
                violations.append(pth)

        # ---- evidence --------------------------------------------------------------------------------
        evaluations = sum(m['evaluations'] for m in merged.values()) + len(items)
        nt = set()
        for lname, m in merged.items():
            nt |= {lname + ':' + h for h in m['nt_hashes']}
        samples = []
        for lname, m in merged.items():
            for c in m['samples'][:3]:
                samples.append({'leg': lname, 'case': json_safe(json.loads(canon(c)))})
        classes = {l: dict(sorted(m['classes'].items())) for l, m in merged.items()}
        shortfalls = []
        for leg in mod.legs(tier):
            m = merged.get(leg.name)
            if not m or not m['evaluations']:
                continue
            for cname, frac in getattr(leg, 'essential', {}).items():
                got = m['classes'].get(cname, 0) / float(m['evaluations'])
                if got < frac:
                    shortfalls.append('%s:%s %.3f<%.3f' % (leg.name, cname, got, frac))
        ev = {
            'property_id': prop, 'tier': tier, 'seed': seed, 'level': 'exploration',
            'coverage': {
                'evaluations': evaluations,
                'distinct_nontrivial': len(nt),
                'rule': mod.RULE,
                'samples': samples[:12],
                'legs': {l: {'evaluations': m['evaluations'], 'distinct_nontrivial': len(m['nt_hashes']),
                             'counters': m['counters']} for l, m in merged.items()},
                'exhaustive_subspaces': {l: m['enumerated'] for l, m in merged.items() if 'enumerated' in m},
                'classes': classes,
                'class_shortfalls': shortfalls,
                'excluded_known': {l: m['excluded'] for l, m in merged.items() if m['excluded']},
                'not_executed_known_unsafe': {l: m['skipped'] for l, m in merged.items() if m['skipped']},
                'excluded_known_samples': json_safe({l: m['excluded_samples'] for l, m in merged.items()
                                                     if m['excluded_samples']}),
                'known_findings_open': [e['id'] for e in known.entries],
                'known_findings_stale': stale,
                'fixed_regressions_replayed': fixed_replayed,
                'workers': nworkers,
                'source_hash': full_hash,
                'exhaustive': False,
            },
            'assumptions': list(getattr(mod, 'ASSUMPTIONS', [])),
            'wall_s': round(time.time() - t0, 2),
            'violations': len(violations),
        }
        if hasattr(mod, 'extra_evidence'):
            ev['coverage'].update(json_safe(mod.extra_evidence(tier, merged)))
        os.makedirs(os.path.join(ROOT, 'evidence'), exist_ok=True)
        with open(os.path.join(ROOT, 'evidence', '%s.json' % prop), 'w') as f:
            json.dump(ev, f, indent=1, default=_json_default)

        for ln in known_lines:
            print(ln)
        print('%s %s seed=%d: %d cases, %d distinct non-trivial, %.1fs%s'
              % (prop, tier, seed, ev['coverage']['evaluations'], ev['coverage']['distinct_nontrivial'], time.time() - t0,
                 (' [generator shortfalls: %s]' % ', '.join(shortfalls)) if shortfalls else ''))
        if violations:
            for pth in violations:
                print('VIOLATION property=%s replay=%s' % (prop, pth))
            return 1
        return 0
    except HarnessError as e:
        print('HARNESS-ERROR: %s' % e)
        return 2
    finally:
        for q in locals().get('procs', []):
            if q.is_alive():
                q.kill()
        shutil.rmtree(rundir, ignore_errors=True)
