# -*- coding: utf-8 -*-
"""C16 — DBA k-means returns k clusters covering all series, each with a nearest mean (DESIGN.md §3 C16)."""
from hypothesis import strategies as st

from .. import gen, ref
from ..runner import Leg, Res, libcall

PROPERTY = 'C16'
NEED_C = True
RULE = ('3..8 series, one case in 10 with 9..14 (lengths 2..6, ndim 1..2, duplicates allowed, list or matrix container; a third of the data sets are built as convex combinations of 2-3 patterns, time-stretched, so that nearest-mean decisions are near-ties), k in 1..n-1 (biased to 2..3), a drawn seed '
        '(numpy and random are seeded from it inside the case), initialisation {k-means++ default, random, explicit sample '
        'size}, drop_stddev in {None,1,2,3}, max_it 1..5, window / penalty, use_c, serial (and a few parallel runs in the '
        'thorough tier), a recording monitor_distances callback. Oracle: keys exactly 0..k-1, the sets partition range(n), '
        'len(means) == k, every series is at least as close (reference DTW under the given options) to the mean of its own '
        'cluster as to any other mean, iterations <= max_it + 1, the last monitor call (flag True) agrees with the returned '
        'assignment. Refit leg: one model object and one options dict fitted first on short and then on longer series; the '
        'second fit must satisfy the same postcondition, leave the options dict as given and equal the result of a fresh '
        'model under the same seed. Non-trivial: k >= 2, n >= k+2, >= 2 non-empty clusters and >= 2 iterations performed.')
ASSUMPTIONS = ['initialize_sample_size is kept <= n - k (the default bound); fit_fast / k-medoids initialisation are not '
               'part of the property', 'nearest-mean check with relative tolerance 1e-9']


@st.composite
def _case(draw, parallel_ok):
    ndim = draw(st.sampled_from([1, 1, 2, 2]))
    n = draw(gen.count(3, 8, 14, one_in=10))
    eq = draw(st.booleans())
    L0 = draw(st.integers(2, 6))
    regime = draw(st.sampled_from(['L', 'L', 'L', 'F']))
    series = []
    kind = draw(st.sampled_from(['free', 'free', 'between']))
    if kind == 'free':
        for _ in range(n):
            L = L0 if eq else draw(st.integers(2, 6))
            series.append(draw(gen.series(L, L, regime, ndim)))
    else:
        # near-ties by construction: two or three patterns and series that lie between them (convex combinations on a
        # grid, time-stretched to other lengths), so that which mean is nearest hinges on small distance differences
        regime = 'L'
        pats = [draw(gen.series(L0, L0, 'L', ndim)) for _ in range(draw(st.integers(2, 3)))]
        for _ in range(n):
            a, b = draw(st.sampled_from(pats)), draw(st.sampled_from(pats))
            t = draw(st.sampled_from([0.0, 0.25, 0.5, 0.5, 0.75, 1.0]))
            if ndim == 1:
                mix = [t * x + (1 - t) * y for x, y in zip(a, b)]
            else:
                mix = [[t * x + (1 - t) * y for x, y in zip(pa, pb)] for pa, pb in zip(a, b)]
            if not eq:
                out = []
                for x in mix:
                    for _k in range(draw(st.integers(1, 2))):
                        if len(out) < 8:
                            out.append(list(x) if ndim > 1 else x)
                mix = out
            series.append(mix)
    for _ in range(draw(st.integers(0, 3))):
        series[draw(st.integers(0, n - 1))] = [x[:] if ndim > 1 else x for x in series[draw(st.integers(0, n - 1))]]
        if eq is False:
            pass
    # few clusters relative to the number of series: assignments are then decided by comparisons between means that
    # are real averages (with k close to n every mean is one of the series and every assignment is trivially right)
    k = min(n - 1, draw(st.sampled_from([1, 2, 2, 2, 3, 3, 4, 7])))
    init = draw(st.sampled_from(['kmeans++', 'kmeans++', 'random', 'sample']))
    return {'series': series, 'ndim': ndim, 'k': k, 'seed': draw(st.integers(0, 10 ** 6)), 'init': init,
            'sample_size': draw(st.integers(1, max(1, n - k))), 'drop_stddev': draw(st.sampled_from([None, None, 1, 2, 3])),
            'max_it': draw(st.integers(1, 5)), 'window': draw(st.one_of(st.none(), st.integers(1, 5))),
            'penalty': draw(st.sampled_from([None, None, 0.5, 2.0, 3.0, 3.0])), 'use_c': draw(st.booleans()),
            'container': 'matrix' if (len({len(s) for s in series}) == 1 and draw(st.booleans())) else 'list',
            'parallel': parallel_ok and draw(st.integers(0, 19)) == 0}


def run(case):
    import random
    import numpy as np
    from dtaidistance.clustering.kmeans import KMeans
    res = Res()
    S, nd, k = case['series'], case['ndim'], case['k']
    n = len(S)
    dup = len({repr(s) for s in S}) < n
    res.cls('ndim=%d' % nd, 'init=' + case['init'], 'use_c' if case['use_c'] else 'python', 'duplicates' if dup else 'distinct',
            'container=' + case['container'], 'parallel' if case['parallel'] else 'serial')
    opts = {}
    if case['window'] is not None:
        opts['window'] = case['window']
    if case['penalty'] is not None:
        opts['penalty'] = case['penalty']
    if case['use_c']:
        opts['use_c'] = True
    kw = {'k': k, 'max_it': case['max_it'], 'max_dba_it': 3, 'drop_stddev': case['drop_stddev'], 'dists_options': opts,
          'show_progress': False}
    if case['init'] == 'random':
        kw['initialize_with_kmeanspp'] = False
    elif case['init'] == 'sample':
        kw['initialize_sample_size'] = case['sample_size']
    data = np.array(S, dtype=np.double) if case['container'] == 'matrix' else [np.array(s, dtype=np.double) for s in S]
    calls = []

    def monitor(cd, final):
        calls.append(([(int(c), float(d)) for c, d in cd], bool(final)))
        return True
    np.random.seed(case['seed'])
    random.seed(case['seed'])
    model, exc = libcall(KMeans, **kw)
    if exc:
        res.fail('init:' + exc, 'KMeans(...) raised')
        return res
    got, exc = libcall(model.fit, data, use_parallel=case['parallel'], monitor_distances=monitor)
    if exc:
        res.fail('fit:' + exc + (':duplicates' if dup else ''), 'fit raised (k=%d, n=%d, init=%s)' % (k, n, case['init']))
        return res
    clusters, it = got
    keys = sorted(int(x) for x in clusters)
    if keys != list(range(k)):
        res.fail('keys', 'cluster keys %r, expected 0..%d' % (keys, k - 1))
        return res
    members = sorted(int(i) for v in clusters.values() for i in v)
    if members != list(range(n)):
        res.fail('partition', 'clusters %r do not partition range(%d)' % ({a: sorted(b) for a, b in clusters.items()}, n))
        return res
    if len(model.means) != k or any(m is None for m in model.means):
        res.fail('means', '%d means for k=%d' % (len([m for m in model.means if m is not None]), k))
        return res
    if it > case['max_it'] + 1:
        res.fail('iterations', 'reported %d iterations for max_it=%d' % (it, case['max_it']))
    means = [np.asarray(m, dtype=float).tolist() for m in model.means]
    rkw = {'window': case['window'], 'penalty': case['penalty']}
    for c, idxs in clusters.items():
        for i in idxs:
            ds = [ref.ref_dtw(S[i], m, **rkw) for m in means]
            if not ref.leq(ds[int(c)], min(ds)):
                res.fail('nearest', 'series %d is in cluster %d at distance %r but mean %d is at %r'
                         % (i, c, ds[int(c)], ds.index(min(ds)), min(ds)))
                break
    if not calls or not calls[-1][1]:
        res.fail('monitor:final', 'monitor_distances was not called with the final flag')
    else:
        last = calls[-1][0]
        assign = {i: int(c) for c, v in clusters.items() for i in v}
        if len(last) != n or any(assign[i] != last[i][0] for i in range(n)):
            res.fail('monitor:assignment', 'final monitor call %r disagrees with the returned clusters %r'
                     % ([c for c, d in last], assign))
    nonempty = sum(1 for v in clusters.values() if v)
    res.nontrivial = k >= 2 and n >= k + 2 and nonempty >= 2 and it >= 2
    if nonempty < k:
        res.cls('empty-cluster')
    return res


@st.composite
def _case_refit(draw):
    """Two fits with one model object (and one options dict): first on short series, then on longer ones."""
    ndim = draw(st.sampled_from([1, 1, 2]))
    n1, n2 = draw(st.integers(3, 5)), draw(st.integers(4, 7))
    first = [draw(gen.series(2, 3, 'L', ndim)) for _ in range(n1)]
    second = [draw(gen.series(5, 9, 'L', ndim)) for _ in range(n2)]
    return {'first': first, 'second': second, 'ndim': ndim, 'k': draw(st.integers(2, 3)), 'seed': draw(st.integers(0, 10 ** 6)),
            'window': draw(st.sampled_from([None, None, None, 2, 4])), 'penalty': draw(st.sampled_from([None, None, 0.5])),
            'use_c': draw(st.booleans()), 'init': draw(st.sampled_from(['kmeans++', 'kmeans++', 'random']))}


def run_refit(case):
    import random
    import numpy as np
    from dtaidistance.clustering.kmeans import KMeans
    res = Res()
    nd, k = case['ndim'], case['k']
    res.cls('ndim=%d' % nd, 'init=' + case['init'], 'use_c' if case['use_c'] else 'python',
            'window' if case['window'] is not None else 'no-window')
    given = {}
    if case['window'] is not None:
        given['window'] = case['window']
    if case['penalty'] is not None:
        given['penalty'] = case['penalty']
    if case['use_c']:
        given['use_c'] = True
    kw = {'k': k, 'max_it': 3, 'max_dba_it': 3, 'show_progress': False}
    if case['init'] == 'random':
        kw['initialize_with_kmeanspp'] = False
    A = [np.array(s, dtype=np.double) for s in case['first']]
    B = [np.array(s, dtype=np.double) for s in case['second']]

    def fit(model, data):
        np.random.seed(case['seed'])
        random.seed(case['seed'])
        return libcall(model.fit, data, use_parallel=False)
    opts = dict(given)
    model, exc = libcall(KMeans, dists_options=opts, **kw)
    if exc:
        res.fail('refit:init:' + exc, 'KMeans(...) raised')
        return res
    _, exc = fit(model, A)
    if exc:
        res.count('first_fit_raised')
        return res
    got, exc = fit(model, B)
    fresh_model, _ = libcall(KMeans, dists_options=dict(given), **kw)
    exp, exc2 = fit(fresh_model, B)
    if exc2:
        res.count('fresh_fit_raised')
        return res
    if exc:
        res.fail('refit:' + exc, 'second fit on the same model raised, a fresh model does not')
        return res
    if opts != given:
        res.fail('refit:options-modified', 'the options dict given to KMeans %r became %r' % (given, opts))
    # the second fit is a fit with the options as given: same postcondition (against the reference DTW) ...
    clusters, it = got
    means = [np.asarray(m, dtype=float).tolist() for m in model.means]
    rkw = {'window': case['window'], 'penalty': case['penalty']}
    S = case['second']
    if sorted(int(i) for v in clusters.values() for i in v) != list(range(len(S))) or len(means) != k:
        res.fail('refit:partition', 'second fit: clusters %r' % ({a: sorted(b) for a, b in clusters.items()},))
        return res
    for c, idxs in clusters.items():
        for i in idxs:
            ds = [ref.ref_dtw(S[i], m, **rkw) for m in means]
            if not ref.leq(ds[int(c)], min(ds)):
                res.fail('refit:nearest', 'second fit: series %d is in cluster %d at distance %r but mean %d is at %r'
                         % (i, c, ds[int(c)], ds.index(min(ds)), min(ds)))
                break
    # ... and, the procedure being deterministic for a given seed, the same result as a model that has fitted nothing before
    same = ({int(a): sorted(int(x) for x in b) for a, b in clusters.items()} ==
            {int(a): sorted(int(x) for x in b) for a, b in exp[0].items()}) and it == exp[1] and \
        all(np.shape(a) == np.shape(b) and
            np.allclose(np.asarray(a, dtype=float), np.asarray(b, dtype=float), rtol=1e-9, atol=1e-12)
            for a, b in zip(model.means, fresh_model.means))
    if not same:
        res.fail('refit:differs-from-fresh-model', 'second fit gives %r (%d iterations), a fresh model with the same seed %r (%d)'
                 % ({a: sorted(b) for a, b in clusters.items()}, it, {a: sorted(b) for a, b in exp[0].items()}, exp[1]))
    res.nontrivial = k >= 2 and sum(1 for v in clusters.values() if v) >= 2
    return res


def legs(tier):
    return [Leg('kmeans', _case(tier != 'quick'), run, 4800, 48000, max_shrink_buckets=6),
            Leg('refit', _case_refit(), run_refit, 1200, 12000, max_shrink_buckets=4)]


REGIONS = {}
