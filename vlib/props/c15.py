# -*- coding: utf-8 -*-
"""C15 — hierarchical clustering: a partition built from monotone, bounded merges (DESIGN.md §3 C15)."""
from hypothesis import strategies as st

from .. import gen, ref
from ..runner import Leg, Res, libcall

PROPERTY = 'C15'
NEED_C = True
RULE = ('(a) 2..8 series, one case in 8 with 9..18 (lattice values, duplicates -> ties) with dtw.distance_matrix / distance_matrix_fast as dists_fun; '
        '(b) a synthetic dists_fun returning generated upper-triangular matrices (ties, duplicates, inf entries, near-ties that agree to 5-6 digits, matrices whose entries are all below 1e-8). max_dist in '
        '{inf, constructed between entries}; hooks {none, weight hook, order hook, recording merge hook}; models '
        'Hierarchical, HierarchicalTree, LinkageTree (single/complete/average); histories: fit on data A, on B, on A again '
        'with one model object must equal fresh models. Oracle: clusters partition range(n), each keyed by a member; '
        'recorded merges non-decreasing, <= max_dist and equal to the original matrix entry of the merged pair; no two '
        'remaining prototypes within max_dist; for tie-free matrices the merge sequence equals a replay model; tree: n-1 rows, '
        'valid child ids, every node id 0..2n-3 a child exactly once, 2n-2 never, all leaves reachable from the root; '
        'LinkageTree.linkage = scipy.cluster.hierarchy.linkage of the condensed reference distances. Non-trivial: n >= 3 '
        'with >= 2 merges, or ties present, or max_dist stops the merging early.'
        ' Tree accessors maxnode / get_linkage agree with the linkage; a child that is not a node id (None) is an invalid child.')
ASSUMPTIONS = ['user-supplied hook objects with their own mutable state (weights lists) are freshly created per fit; the '
               'history leg uses only stateless hooks']

inf = float('inf')


@st.composite
def _matrix(draw, n, allow_inf=True):
    mode = draw(st.sampled_from(['lattice', 'lattice', 'float', 'float', 'near-tie', 'tiny']))
    if mode == 'lattice':
        vals = st.sampled_from([0.0, 0.25, 0.5, 1.0, 1.5, 2.0, 3.0, 4.5])
    elif mode == 'float':
        vals = st.floats(0.0, 100.0, allow_nan=False)
    elif mode == 'near-tie':
        # entries that agree to five or six digits without being equal: "the minimum" and "equal to the minimum" must be
        # decided exactly, not up to a tolerance
        vals = st.builds(lambda v, k: v * (1.0 + k * 1e-6), st.sampled_from([0.5, 1.0, 1.5, 2.0, 3.0, 100.0]),
                         st.integers(-4, 4))
    else:
        # all entries far below any absolute tolerance
        vals = st.one_of(st.integers(0, 12).map(lambda k: k * 2.5e-10), st.floats(0.0, 1e-8, allow_nan=False))
    if allow_inf:
        vals = st.one_of(vals, vals, vals, vals, st.just(inf))
    M = [[inf] * n for _ in range(n)]
    for r in range(n):
        for c in range(r + 1, n):
            M[r][c] = draw(vals)
    return M


@st.composite
def _case(draw, hist=False):
    n = draw(gen.count(2, 8, 18, one_in=8))
    kind = draw(st.sampled_from(['dtw', 'dtw-c', 'synthetic', 'synthetic']))
    case = {'n': n, 'kind': kind}
    if kind.startswith('dtw'):
        case['series'] = [draw(gen.series(1, 5, 'L', 1)) for _ in range(n)]
        if n >= 3 and draw(st.booleans()):
            case['series'][draw(st.integers(0, n - 1))] = list(case['series'][draw(st.integers(0, n - 1))])
        D = [[inf] * n for _ in range(n)]
        for r in range(n):
            for c in range(r + 1, n):
                D[r][c] = ref.ref_dtw(case['series'][r], case['series'][c])
        case['matrix'] = None
    else:
        case['series'] = [[float(i)] for i in range(n)]
        D = draw(_matrix(n))
        case['matrix'] = D
    flat = sorted(set(D[r][c] for r in range(n) for c in range(r + 1, n) if D[r][c] != inf))
    # exactly an entry only for synthetic matrices (the same float reaches the comparison, so "within" is well defined)
    thr = draw(gen.threshold_between(flat, exact_ok=not kind.startswith('dtw'), allow_none=True, none_weight=3))
    if draw(st.integers(0, 11)) == 0:
        thr = 0.0       # the boundary value: only identical series (distance exactly 0) may be merged
    case['max_dist'] = thr
    case['hook'] = draw(st.sampled_from(['none', 'record', 'weight', 'order']))
    case['weights'] = [draw(st.integers(1, 4)) for _ in range(n)]
    case['model'] = draw(st.sampled_from(['hier', 'hier', 'tree']))
    case['method'] = draw(st.sampled_from(['single', 'complete', 'average']))
    if hist:
        m = draw(st.integers(2, 6))
        case['series_b'] = [draw(gen.series(1, 5, 'L', 1)) for _ in range(m)]
        case['matrix_b'] = draw(_matrix(m)) if not kind.startswith('dtw') else None
        case['hook'] = draw(st.sampled_from(['none', 'record']))
    return case


def _dmatrix(case, which='a'):
    S = case['series'] if which == 'a' else case['series_b']
    M = case['matrix'] if which == 'a' else case['matrix_b']
    n = len(S)
    if M is not None:
        return [[float(x) for x in row] for row in M]
    D = [[inf] * n for _ in range(n)]
    for r in range(n):
        for c in range(r + 1, n):
            D[r][c] = ref.ref_dtw(S[r], S[c])
    return D


def _dists_fun(case, which='a'):
    import numpy as np
    from dtaidistance import dtw
    if case['kind'] == 'dtw':
        return dtw.distance_matrix, {}
    if case['kind'] == 'dtw-c':
        return dtw.distance_matrix_fast, {'parallel': False}
    D = _dmatrix(case, which)

    def fn(series, only_triu=False, **kw):
        n = len(D)
        M = np.full((n, n), np.inf)
        for r in range(n):
            for c in range(r + 1, n):
                M[r, c] = D[r][c]
                if not only_triu:
                    M[c, r] = D[r][c]
        if not only_triu:
            np.fill_diagonal(M, 0)
        return M
    return fn, {}


def _series(case, which='a'):
    import numpy as np
    S = case['series'] if which == 'a' else case['series_b']
    return [np.array(s, dtype=np.double) for s in S]


def _replay(D, max_dist):
    """Replay model for tie-free matrices: repeated global minimum over non-deleted prototypes."""
    n = len(D)
    alive = set(range(n))
    merges = []
    while len(alive) > 1:
        best = None
        for r in sorted(alive):
            for c in sorted(alive):
                if r < c and D[r][c] != inf and (best is None or D[r][c] < best[0]):
                    best = (D[r][c], r, c)
        if best is None or best[0] > max_dist:
            break
        merges.append((best[1], best[2], best[0]))
        alive.discard(best[2])
    return merges


def _check_clusters(res, tag, n, clusters):
    seen = []
    for k, v in clusters.items():
        if k not in v:
            res.fail(tag + ':key', 'cluster key %r is not a member of its set %r' % (k, sorted(v)))
        seen.extend(v)
    if sorted(seen) != list(range(n)):
        res.fail(tag + ':partition', 'clusters %r do not partition range(%d)' % ({k: sorted(v) for k, v in clusters.items()}, n))
        return False
    return True


def _check_tree(res, tag, n, linkage):
    rows = [tuple(r) for r in linkage]
    if len(rows) != n - 1:
        res.fail(tag + ':rows', '%d merges recorded for %d series' % (len(rows), n))
        return
    children = []
    for i, r in enumerate(rows):
        try:
            a, b = int(r[0]), int(r[1])
            if a != r[0] or b != r[1]:
                raise ValueError
        except (TypeError, ValueError):
            # a child that is not a node id at all (None, a fraction) is an invalid child id, not a harness problem
            res.fail(tag + ':child-id', 'row %d has children %r, %r: not node ids' % (i, r[0], r[1]))
            return
        for x in (a, b):
            if not (0 <= x < n + i):
                res.fail(tag + ':child-id', 'row %d refers to node %r (valid: 0..%d)' % (i, x, n + i - 1))
                return
        children.extend([a, b])
    if sorted(children) != list(range(2 * n - 2)):
        res.fail(tag + ':child-once', 'children %r: every node 0..%d must be a child exactly once' % (sorted(children), 2 * n - 3))
        return
    # reachability of all leaves from the root
    root = 2 * n - 2
    stack, leaves = [root], set()
    while stack:
        x = stack.pop()
        if x < n:
            leaves.add(x)
        else:
            r = rows[x - n]
            stack.extend([int(r[0]), int(r[1])])
    if leaves != set(range(n)):
        res.fail(tag + ':reachable', 'leaves reachable from the root: %r' % sorted(leaves))


def _fit(case, which, model=None, record=None):
    """Build (or reuse) a model and fit it; returns (model, clusters)."""
    from dtaidistance.clustering import hierarchical as H
    fn, opts = _dists_fun(case, which)
    S = _series(case, which)
    n = len(S)
    md = case['max_dist'] if case['max_dist'] is not None else inf
    if model is None:
        kw = {}
        count = [0]

        def guard(f, t, d):
            # more than n-1 merges cannot happen: a non-terminating merge loop must surface as a failure, not a hang
            count[0] += 1
            if count[0] > 4 * n + 4:
                raise RuntimeError('merge loop does not terminate')
        kw['merge_hook'] = guard      # returns None: behaviour-neutral
        if case['hook'] == 'record':
            def hook(f, t, d):
                guard(f, t, d)
                record.append((int(f), int(t), float(d)))
            kw['merge_hook'] = hook
        elif case['hook'] == 'weight' and which == 'a':
            wh = H.Hooks.create_weighthook(list(case['weights'])[:n] + [1] * n, S)

            def whook(f, t, d):
                guard(f, t, d)
                return wh(f, t, d)
            kw['merge_hook'] = whook
        elif case['hook'] == 'order' and which == 'a':
            kw['order_hook'] = H.Hooks.create_orderhook(list(case['weights'])[:n] + [1] * n)
        base = H.Hierarchical(fn, dict(opts), max_dist=md, show_progress=False, **kw)
        model = H.HierarchicalTree(base) if case['model'] == 'tree' else base
    else:
        inner_model = model._model if hasattr(model, '_model') else model
        inner_model.dists_fun = fn
    return model, model.fit(S)


def run(case):
    import numpy as np
    from dtaidistance.clustering import hierarchical as H
    res = Res()
    n = case['n']
    D = _dmatrix(case)
    md = case['max_dist'] if case['max_dist'] is not None else inf
    finite = all(D[r][c] != inf for r in range(n) for c in range(r + 1, n))
    flat = [D[r][c] for r in range(n) for c in range(r + 1, n)]
    ties = len(set(flat)) < len(flat)
    res.cls('kind=' + case['kind'], 'model=' + case['model'], 'hook=' + case['hook'], 'ties' if ties else 'tie-free',
            'max_dist' if md != inf else 'no-max_dist')
    record = []
    got, exc = libcall(_fit, case, 'a', None, record)
    if exc:
        res.fail('fit:' + exc, 'fit raised')
        return res
    model, clusters = got
    clusters = {int(k): {int(x) for x in v} for k, v in clusters.items()}
    ok = _check_clusters(res, 'fit', n, clusters)
    eff_md = inf if case['model'] == 'tree' else md
    if case['hook'] == 'record':
        prev = -inf
        for f, t, d in record:
            a, b = min(f, t), max(f, t)
            if d < prev - 1e-12:
                res.fail('merge:order', 'merge distances not non-decreasing: %r' % [m[2] for m in record])
                break
            prev = d
            if d > eff_md:
                res.fail('merge:max_dist', 'merge at distance %r above max_dist %r' % (d, eff_md))
            if not ref.close(d, D[a][b]):
                res.fail('merge:distance', 'merge (%d,%d) reported distance %r, matrix entry %r' % (f, t, d, D[a][b]))
        if not ties and case['model'] != 'tree' or (not ties and finite):
            exp = _replay(D, eff_md)
            gotm = [(min(f, t), max(f, t)) for f, t, d in record]
            if gotm != [(a, b) for a, b, d in exp]:
                res.fail('merge:sequence', 'merges %r, replay model %r' % (gotm, [(a, b) for a, b, d in exp]))
    if ok:
        protos = sorted(clusters)
        for i, p in enumerate(protos):
            for q in protos[i + 1:]:
                if D[p][q] != inf and D[p][q] <= eff_md:
                    res.fail('fit:unmerged', 'prototypes %d and %d remain although their distance %r <= max_dist %r'
                             % (p, q, D[p][q], eff_md))
    nm = n - len(clusters)
    res.nontrivial = (n >= 3 and nm >= 2) or ties or (md != inf and len(clusters) > 1)
    if case['model'] == 'tree' and finite:
        _check_tree(res, 'tree', n, model.linkage)
        # the accessors of the tree: the root is node 2n-2, a leaf has no linkage row, an inner node has its own
        got, exc = libcall(lambda: (model.maxnode, model.get_linkage(0), [model.get_linkage(n + i) for i in range(len(model.linkage))]))
        if exc:
            res.fail('tree:accessors:' + exc, 'maxnode / get_linkage raised')
        elif len(model.linkage) == n - 1:
            mx, leaf, rows = got
            if mx != 2 * n - 2 or leaf is not None or [tuple(r) for r in rows] != [tuple(r) for r in model.linkage]:
                res.fail('tree:accessors', 'maxnode=%r (root is %d), get_linkage(leaf)=%r, get_linkage(inner nodes)=%r, linkage=%r'
                         % (mx, 2 * n - 2, leaf, rows, list(model.linkage)))
    # LinkageTree vs scipy on the reference distances
    if finite and n >= 2:
        from scipy.cluster.hierarchy import linkage
        fn, opts = _dists_fun(case, 'a')
        lt = H.LinkageTree(fn, dict(opts), method=case['method'])
        got, exc = libcall(lt.fit, _series(case, 'a'))
        if exc:
            res.fail('linkage:' + exc, 'LinkageTree.fit raised')
        else:
            cond = [D[r][c] for r in range(n) for c in range(r + 1, n)]
            exp = linkage(np.array(cond, dtype=float), method=case['method'])
            if np.asarray(got).shape != exp.shape or not np.allclose(np.asarray(got), exp, rtol=1e-9, atol=1e-12):
                res.fail('linkage:differs', 'LinkageTree(%s) %r, scipy on the condensed reference distances %r'
                         % (case['method'], np.asarray(got).tolist(), exp.tolist()))
            _check_tree(res, 'linkage-tree', n, np.asarray(got))
    return res


def run_hist(case):
    res = Res()
    res.cls('kind=' + case['kind'], 'model=' + case['model'])
    recs = [[], [], []]
    fresh = []
    for k, which in enumerate(['a', 'b', 'a']):
        got, exc = libcall(_fit, case, which, None, [])
        fresh.append(None if exc else {int(a): sorted(int(x) for x in b) for a, b in got[1].items()})
    model = None
    for k, which in enumerate(['a', 'b', 'a']):
        got, exc = libcall(_fit, case, which, model, recs[k])
        if exc:
            res.fail('hist:fit:' + exc, 'fit number %d on the shared model raised' % (k + 1))
            return res
        model, cl = got
        cl = {int(a): sorted(int(x) for x in b) for a, b in cl.items()}
        if fresh[k] is not None and cl != fresh[k]:
            res.fail('hist:differs', 'fit %d (data %s) on the shared model %r, fresh model %r' % (k + 1, which.upper(), cl,
                                                                                              fresh[k]))
        if case['model'] == 'tree':
            S = case['series'] if which == 'a' else case['series_b']
            D = _dmatrix(case, which)
            if all(D[r][c] != inf for r in range(len(S)) for c in range(r + 1, len(S))):
                _check_tree(res, 'hist:tree', len(S), model.linkage)
    res.nontrivial = case['n'] >= 3
    return res


def legs(tier):
    return [Leg('fit', _case(), run, 10000, 100000, max_shrink_buckets=8),
            Leg('history', _case(hist=True), run_hist, 2400, 20000)]


REGIONS = {}
