# -*- coding: utf-8 -*-
"""C01 — pure-Python DTW distance equals the optimum over all admissible warping paths (DESIGN.md §3 C01)."""
import array

from hypothesis import strategies as st

from .. import gen, ref, inner as vinner
from ..runner import Leg, Res, libcall

PROPERTY = 'C01'
NEED_C = False
RULE = ('Hypothesis draws two series (regimes: exact lattice values / finite floats in [-1e3,1e3] / shaped '
        'pairs; lengths 1..8 quick, 1..14 thorough) and window, penalty, psi (None/0/int/4-tuple/4-list, degenerate '
        'combinations repaired by construction), constructed max_step thresholds, max_length_diff and inner '
        'distance (both names and two user-supplied objects); dtw.distance(use_c=False) is compared with an '
        'independent dictionary DP over all in-band pairs, and for l1*l2<=16 additionally with the explicit '
        'enumeration of all warping paths. Inputs are passed as list, numpy array or array.array, and the same '
        'generator drives a child interpreter in which numpy cannot be imported. A case is non-trivial when '
        'both lengths are >= 2 and at least one of {window narrower than the longer series, psi != 0, penalty '
        '> 0, max_step set, non-default inner distance, unequal lengths} holds; distinctness by the hash of the '
        'whole case. History leg: 2-4 calls in a row with different inner distances (two class-form objects, two instances '
        'of one class with different parameters, a subclass instance, the two names), each compared with the reference; '
        'non-trivial when two different user-supplied objects occur.')
ASSUMPTIONS = ['series values are finite doubles with |x| <= 1e3 (no overflow of squares/sums)',
               'lengths <= 14; every band/psi/buffer mechanism is a function of (l1,l2,window,psi) and is '
               'exercised below that size',
               'results compared with relative tolerance 1e-9 (inf must match exactly)']


def _oracle(case):
    kw = gen.settings_kwargs(case)
    return ref.ref_dtw(case['s1'], case['s2'], **kw)


def _brute_selfcheck(case, res):
    s1, s2 = case['s1'], case['s2']
    if len(s1) * len(s2) > 16 or case.get('max_length_diff') is not None:
        return
    kw = gen.settings_kwargs(case, keys=('window', 'penalty', 'psi', 'max_step'))
    b, _n = ref.brute_dtw_internal(s1, s2, **kw)
    r = ref.ref_dtw_internal(s1, s2, **kw)
    res.count('oracle_selfchecks')
    if not ref.close(b, r):
        raise AssertionError('oracle self-check failed: brute=%r dp=%r case=%r' % (b, r, case))


def _nontrivial(case):
    l1, l2 = len(case['s1']), len(case['s2'])
    if l1 < 2 or l2 < 2:
        return False
    w = case.get('window')
    return bool((w is not None and w < max(l1, l2)) or any(gen.psi4(case.get('psi'))) or case.get('penalty')
                or case.get('max_step') or case.get('inner', 'squared euclidean') != 'squared euclidean'
                or l1 != l2)


def lib_kwargs(case):
    kw = {}
    for k in ('window', 'penalty', 'max_step', 'max_length_diff'):
        if k in case:
            kw[k] = case[k]
    kw['psi'] = gen.psi_to_lib(case.get('psi'))
    kw['inner_dist'] = vinner.lib_inner(case.get('inner', 'squared euclidean'))
    return kw


def _container(s, kind):
    if kind == 'ndarray':
        import numpy as np
        return np.array(s, dtype=np.double)
    if kind == 'array':
        return array.array('d', s)
    if kind == 'tuple':
        return tuple(s)
    return list(s)


def _relclose(a, b):
    if a == b:
        return True
    try:
        return abs(a - b) <= 1e-9 * max(abs(a), abs(b))
    except (TypeError, OverflowError):
        return False


def run_py(case):
    from dtaidistance import dtw
    res = Res()
    res.cls(*gen.classes_dtw(case))
    res.nontrivial = _nontrivial(case)
    if case.get('psi_repairs'):
        res.count('repaired_degenerate_psi')
    if case.get('scale'):
        res.cls('extreme-magnitude')
    _brute_selfcheck(case, res)
    exp = _oracle(case)
    if exp == ref.inf:
        res.cls('result=inf')
    s1 = _container(case['s1'], case.get('c1', 'list'))
    s2 = _container(case['s2'], case.get('c2', 'list'))
    got, exc = libcall(dtw.distance, s1, s2, use_c=False, **lib_kwargs(case))
    if exc:
        res.fail(exc, 'dtw.distance raised for an admissible input; reference=%r' % exp)
    elif not (_relclose(got, exp) if case.get('scale') else ref.close(got, exp)):
        res.fail('value', 'dtw.distance=%r reference=%r' % (got, exp))
    elif case.get('exact') and case.get('inner') in ('squared euclidean', 'euclidean') and got != exp:
        res.count('inexact_but_within_tolerance')
    return res


def run_nonumpy(case):
    from .. import childclient
    res = Res()
    res.cls(*gen.classes_dtw(case))
    res.nontrivial = _nontrivial(case)
    exp = _oracle(case)
    ch = childclient.get(nonumpy=True)
    kw = {k: case.get(k) for k in ('window', 'penalty', 'max_step', 'max_length_diff', 'psi')}
    kw['inner_dist'] = case.get('inner', 'squared euclidean')
    kw['use_c'] = False
    conts = {}
    for k, key in ((0, 'c1'), (1, 'c2')):
        if case.get(key) in ('array', 'tuple'):
            conts[str(k)] = case[key]
    rep = ch.call('dtw.distance', [case['s1'], case['s2']], kw, conts)
    if rep.get('numpy_loaded'):
        raise AssertionError('numpy got imported in the no-numpy child')
    if 'exc' in rep:
        res.fail(rep['exc'], 'dtw.distance (no numpy) raised; reference=%r' % exp)
    elif not (_relclose(rep['ok'], exp) if case.get('scale') else ref.close(rep['ok'], exp)):
        res.fail('value', 'dtw.distance (no numpy)=%r reference=%r' % (rep['ok'], exp))
    return res


HIST_INNERS = ('squared euclidean', 'euclidean', 'custom_cubic', 'custom_abs', 'custom_pow1.5', 'custom_pow4',
               'custom_double')


@st.composite
def _history(draw):
    """2-4 calls in a row, each with its own inner distance: user-supplied objects of different classes, and different
    instances of one class, must not influence each other (nothing may be remembered between calls)."""
    n = draw(st.integers(2, 4))
    inners = draw(st.lists(st.sampled_from(HIST_INNERS), min_size=n, max_size=n))
    calls = []
    for k in range(n):
        c = draw(gen.dtw_case(max_len=5, inners=(inners[k],), with_mld=False))
        c['s1'] = [max(-4.0, min(4.0, x)) for x in c['s1']]      # |x-y|**4 stays far from overflow / cancellation
        c['s2'] = [max(-4.0, min(4.0, x)) for x in c['s2']]
        if c['max_step'] is not None:
            c['max_step'] = None if c['regime'][0] != 'L' else c['max_step']
        calls.append(c)
    return {'calls': calls}


def run_history(case):
    from dtaidistance import dtw
    res = Res()
    kinds = [c['inner'] for c in case['calls']]
    custom = [k for k in kinds if k.startswith('custom')]
    res.nontrivial = len(set(custom)) >= 2
    if len({k for k in custom if k.startswith('custom_pow')}) >= 2:
        res.cls('two-instances-of-one-class')
    if 'custom_cubic' in custom and 'custom_abs' in custom:
        res.cls('two-class-form-objects')
    for k, c in enumerate(case['calls']):
        exp = _oracle(c)
        got, exc = libcall(dtw.distance, list(c['s1']), list(c['s2']), use_c=False, **lib_kwargs(c))
        if exc:
            res.fail('history:' + exc, 'call %d (%s) raised after calls with %r; reference=%r' % (k, c['inner'], kinds[:k], exp))
        elif not ref.close(got, exp):
            res.fail('history:value', 'call %d with inner distance %s after calls with %r: dtw.distance=%r reference=%r'
                     % (k, c['inner'], kinds[:k], got, exp))
    return res


def _strategy(max_len, containers):
    @st.composite
    def s(draw):
        case = draw(gen.dtw_case(max_len=max_len, inners=gen.INNER_ALL))
        case['c1'] = draw(st.sampled_from(containers))
        case['c2'] = draw(st.sampled_from(containers))
        if case.get('exact') and draw(st.integers(0, 15)) == 0:
            # magnitudes far outside the range in which squares are representable: the euclidean inner distance only adds
            # absolute differences, so the optimum is still an ordinary double
            sc = draw(st.sampled_from([1e-170, 1e160, 1e300]))
            case['inner'] = 'euclidean'
            case['scale'] = sc
            for k in ('s1', 's2'):
                case[k] = [x * sc for x in case[k]]
            if case.get('penalty'):
                case['penalty'] = case['penalty'] * sc
            case['max_step'] = None      # (a threshold that equals a point distance exactly would not survive the scaling)
        return case
    return s()


def legs(tier):
    ml = 8 if tier == 'quick' else 14
    a = Leg('py', _strategy(ml, ['list', 'list', 'ndarray', 'array', 'tuple']), run_py, 20000, 320000)
    a.essential = {'psi*window': 0.02, 'psi*max_step': 0.02, 'unequal*window': 0.02,
                   'rolling-buffer-rolls': 0.02, 'result=inf': 0.02}
    b = Leg('py-nonumpy', _strategy(ml, ['list', 'array', 'tuple']), run_nonumpy, 4000, 48000)
    c = Leg('inner-history', _history(), run_history, 4000, 40000)
    return [a, b, c]


# ---- regions of open known findings (KNOWN_FINDINGS.jsonl) ---------------------------------------------
REGIONS = {}
