# -*- coding: utf-8 -*-
"""C02 — the C engine returns the same distances as the Python engine (DESIGN.md §3 C02)."""
import array
import ctypes

from hypothesis import strategies as st

from .. import gen, ref, capi
from ..runner import Leg, Res, libcall

PROPERTY = 'C02'
NEED_C = True
RULE = ('C01 generator restricted to what both engines accept (named inner distances) plus ndim 1..3, constructed '
        'max_dist thresholds (factors of the true distance, never the distance itself), use_pruning (only where the '
        'Euclidean distance is a valid upper bound), only_ub, and both encodings (None / 0) of "option off". Every case '
        'is evaluated with the pure-Python engine and with every C entry point that applies: dtw.distance_fast, '
        'dtw.distance(use_c=True), dtw_cc.distance / distance_ndim, dtw_ndim.distance_fast, one entry of '
        'distance_matrix(use_c=True, parallel=False) in list and matrix containers, and the exported kernels called '
        'directly through ctypes with a hand-filled DTWSettings struct. Oracle: differential (both infinite or equal to '
        '1e-9 relative); the independent reference is evaluated as well and tells which side deviates. Non-trivial: '
        'as C01 (both lengths >= 2 and a non-default option / unequal lengths) plus ndim >= 2, euclidean inner distance, '
        'psi tuple or an option passed in its 0 encoding.')
ASSUMPTIONS = ['finite doubles, |x| <= 1e3, lengths <= 14, ndim <= 3',
               'use_pruning only where ED is a valid upper bound (no max_step; penalty off or equal lengths); '
               'use_pruning and max_dist are combined in a third of the pruning cases (the tighter bound decides)',
               'differential testing cannot tell which engine is wrong; the reference value is reported with every '
               'disagreement']


@st.composite
def _case(draw, max_len):
    ndim = draw(st.sampled_from([1, 1, 1, 2, 3]))
    case = draw(gen.dtw_case(max_len=max_len, ndim=ndim, inners=gen.INNER_NAMES))
    case['ndim'] = ndim
    mode = draw(st.sampled_from(['plain', 'plain', 'max_dist', 'max_dist', 'pruning', 'only_ub']))
    case['use_pruning'] = False
    case['only_ub'] = False
    case['max_dist'] = None
    l1, l2 = len(case['s1']), len(case['s2'])
    if mode == 'pruning':
        case['max_step'] = None
        if l1 != l2:
            case['penalty'] = None
        case['use_pruning'] = True
    elif mode == 'only_ub':
        case['only_ub'] = True
        # whether the length-difference limit or the bound-only short cut wins is not fixed by any property
        case['max_length_diff'] = None
    elif mode == 'max_dist':
        kw = gen.settings_kwargs(case)
        d = ref.ref_dtw(case['s1'], case['s2'], **kw)
        if d != ref.inf and d > 1e-9:
            f = draw(st.sampled_from([0.5, 0.9, 1.1, 1.5, 2.0, 10.0]))
            case['max_dist'] = d * f
        elif d == 0:
            case['max_dist'] = draw(st.sampled_from([0.5, 1.0, 10.0]))
        else:
            case['max_dist'] = draw(st.sampled_from([1.0, 10.0, 1000.0]))
    case['off'] = draw(st.sampled_from(['none', 'zero']))
    # a third, usually shorter series: matrices of >= 3 series of unequal lengths reuse one settings struct for all pairs
    base = 'L' if case.get('exact') else 'F'
    l3 = draw(st.integers(1, max(1, min(l1, l2))))
    case['s3'] = draw(gen.series(l3, l3, base, ndim))
    if case['use_pruning'] and len({l1, l2, l3}) > 1:
        case['penalty'] = None      # ED is only a valid bound with a penalty when the lengths are equal
    if case['use_pruning'] and draw(st.integers(0, 2)) == 0:
        # a threshold on top of pruning: the tighter of the two bounds decides in both engines
        d = ref.ref_dtw(case['s1'], case['s2'], **gen.settings_kwargs(case))
        if d != ref.inf and d > 1e-9:
            case['max_dist'] = d * draw(st.sampled_from([0.5, 0.9, 1.1, 2.0]))
    if case.get('max_length_diff') == 0:
        # 0 is the C encoding of "off": max_length_diff=0 is not expressible in both engines
        case['max_length_diff'] = draw(st.integers(1, 3))
    return case


def _off(case, v):
    if v is None and case.get('off') == 'zero':
        return 0
    return v


def lib_kwargs(case, for_c):
    kw = {}
    for k in ('window', 'penalty', 'max_step', 'max_length_diff', 'max_dist'):
        kw[k] = _off(case, case.get(k)) if for_c else case.get(k)
    kw['psi'] = gen.psi_to_lib(case.get('psi'))
    if for_c:
        kw['psi'] = _off(case, kw['psi'])
    kw['inner_dist'] = case.get('inner', 'squared euclidean')
    kw['use_pruning'] = case.get('use_pruning', False)
    return kw


def reference(case):
    if case.get('only_ub'):
        if case.get('max_length_diff') is not None and \
                abs(len(case['s1']) - len(case['s2'])) > case['max_length_diff']:
            return ref.inf
        return None   # what only_ub returns is C09's business; here only agreement is required
    d = ref.ref_dtw(case['s1'], case['s2'], **gen.settings_kwargs(case))
    if case.get('max_dist') and d > case['max_dist']:
        return ref.inf
    return d


def c_entries(case):
    """[(name, callable)] for every C entry point that applies to this case."""
    import numpy as np
    from dtaidistance import dtw, dtw_ndim, dtw_cc
    nd = case['ndim']
    a1 = np.array(case['s1'], dtype=np.double)
    a2 = np.array(case['s2'], dtype=np.double)
    kw = lib_kwargs(case, True)
    ub = case.get('only_ub', False)
    out = []
    ckw = dict(kw)
    cs = capi.settings(window=case.get('window'), max_dist=case.get('max_dist'), max_step=case.get('max_step'),
                       max_length_diff=case.get('max_length_diff'), penalty=case.get('penalty'),
                       psi=gen.psi4(case.get('psi')), use_pruning=case.get('use_pruning', False), only_ub=ub,
                       inner_dist=case.get('inner', 'squared euclidean'))
    L = capi.lib('dtw_cc')
    f1, f2 = capi.darr(case['s1']), capi.darr(case['s2'])
    l1, l2 = len(case['s1']), len(case['s2'])
    if nd == 1:
        out.append(('dtw.distance_fast', lambda: dtw.distance_fast(a1, a2, only_ub=ub, **kw)))
        out.append(('dtw.distance(use_c)', lambda: dtw.distance(a1, a2, only_ub=ub, use_c=True, **kw)))
        out.append(('dtw.distance_fast[array]', lambda: dtw.distance_fast(array.array('d', case['s1']),
                                                                         array.array('d', case['s2']),
                                                                         only_ub=ub, **kw)))
        out.append(('dtw_cc.distance', lambda: dtw_cc.distance(a1, a2, only_ub=ub, **ckw)))
        fnc = lambda: L.dtw_distance(capi.ptr(f1), l1, capi.ptr(f2), l2, ctypes.byref(cs))   # noqa
        fnc.cs = cs
        out.append(('C:dtw_distance', fnc))
        if case.get('inner') == 'euclidean':
            out.append(('C:dtw_distance_euclidean', lambda: L.dtw_distance_euclidean(
                capi.ptr(f1), l1, capi.ptr(f2), l2, ctypes.byref(cs))))
        if not ub:
            out.append(('distance_matrix[list]', lambda: dtw.distance_matrix(
                [a1, a2], use_c=True, parallel=False, compact=True, **kw)[0]))
            if l1 == l2:
                out.append(('distance_matrix[2d]', lambda: dtw.distance_matrix(
                    np.array([case['s1'], case['s2']], dtype=np.double), use_c=True, parallel=False, compact=True,
                    **kw)[0]))
    else:
        out.append(('dtw_ndim.distance_fast', lambda: dtw_ndim.distance_fast(a1, a2, only_ub=ub, **kw)))
        out.append(('dtw.distance(use_c,use_ndim)', lambda: dtw.distance(a1, a2, only_ub=ub, use_c=True,
                                                                         use_ndim=True, **kw)))
        out.append(('dtw_cc.distance_ndim', lambda: dtw_cc.distance_ndim(a1, a2, only_ub=ub, **ckw)))
        fnc = lambda: L.dtw_distance_ndim(capi.ptr(f1), l1, capi.ptr(f2), l2, nd, ctypes.byref(cs))   # noqa
        fnc.cs = cs
        out.append(('C:dtw_distance_ndim', fnc))
        if not ub:
            out.append(('ndim.distance_matrix[list]', lambda: dtw_ndim.distance_matrix(
                [a1, a2], ndim=nd, use_c=True, parallel=False, compact=True, **kw)[0]))
            if l1 == l2:
                out.append(('ndim.distance_matrix[3d]', lambda: dtw_ndim.distance_matrix(
                    np.array([case['s1'], case['s2']], dtype=np.double), ndim=nd, use_c=True, parallel=False,
                    compact=True, **kw)[0]))
    return out


def matrix_entries(case):
    """Distance matrices over three series (short one first) through the C routines, with the pairs they cover."""
    import numpy as np
    from dtaidistance import dtw, dtw_ndim
    nd = case['ndim']
    kw = lib_kwargs(case, True)
    S = [case['s3'], case['s1'], case['s2']]
    A = [np.array(s, dtype=np.double) for s in S]
    pairs = [(0, 1), (0, 2), (1, 2)]
    out = []
    if nd == 1:
        out.append(('distance_matrix3[list]', pairs, lambda: dtw.distance_matrix(A, use_c=True, parallel=False, compact=True,
                                                                                  **kw)))
    else:
        out.append(('ndim.distance_matrix3[list]', pairs, lambda: dtw_ndim.distance_matrix(
            A, ndim=nd, use_c=True, parallel=False, compact=True, **kw)))
    return S, out


def run(case):
    import numpy as np
    from dtaidistance import dtw
    res = Res()
    res.cls(*gen.classes_dtw(case))
    nd = case['ndim']
    l1, l2 = len(case['s1']), len(case['s2'])
    res.cls('ndim=%d' % nd, 'off=' + case['off'])
    for k in ('use_pruning', 'only_ub', 'max_dist'):
        if case.get(k):
            res.cls(k)
    w = case.get('window')
    res.nontrivial = l1 >= 2 and l2 >= 2 and bool(
        (w is not None and w < max(l1, l2)) or any(gen.psi4(case.get('psi'))) or case.get('penalty')
        or case.get('max_step') or case.get('inner') != 'squared euclidean' or l1 != l2 or nd > 1
        or case.get('max_dist') or case.get('use_pruning') or case['off'] == 'zero')
    if case.get('psi_repairs'):
        res.count('repaired_degenerate_psi')
    r = reference(case)
    kw = lib_kwargs(case, False)
    if nd == 1:
        p1, p2 = list(case['s1']), list(case['s2'])
        py, exc = libcall(dtw.distance, p1, p2, only_ub=case['only_ub'], use_c=False, **kw)
    else:
        p1 = np.array(case['s1'], dtype=np.double)
        p2 = np.array(case['s2'], dtype=np.double)
        py, exc = libcall(dtw.distance, p1, p2, only_ub=case['only_ub'], use_c=False, use_ndim=True, **kw)
    if exc:
        # not "accepted by both engines": counted, not compared (a Python-engine failure is C01/C03/C11's)
        res.count('python_engine_raised')
        res.cls('python-raised')
        py = None
    # C matrices over three series of unequal length vs the Python engine pair by pair
    if not case.get('only_ub') and 's3' in case:
        S3, mats = matrix_entries(case)
        for name, pairs, fn in mats:
            vals, mexc = libcall(fn)
            res.count('c_calls')
            if mexc:
                res.fail('%s:%s' % (name, mexc), 'C distance matrix over three series raised')
                continue
            for (a_, b_), v in zip(pairs, list(vals)):
                if nd == 1:
                    pv, pexc = libcall(dtw.distance, list(S3[a_]), list(S3[b_]), use_c=False, **kw)
                else:
                    pv, pexc = libcall(dtw.distance, np.array(S3[a_], dtype=np.double), np.array(S3[b_], dtype=np.double),
                                       use_c=False, use_ndim=True, **kw)
                md = case.get('max_dist')
                if pexc is None and md and (pv == ref.inf) != (v == ref.inf) and \
                        ref.close(min(pv, v), md):
                    # the threshold was constructed away from d(s1, s2) but happens to coincide with the distance of
                    # this other pair: which side of the threshold a value within rounding of it falls on is not fixed
                    res.count('matrix3_threshold_at_distance')
                    continue
                if pexc is None and not ref.close(pv, v):
                    res.fail('matrix3:c-deviates:%s' % case.get('inner'),
                             '%s entry (%d,%d)=%r, python single pair %r' % (name, a_, b_, v, pv))
                    break
    for name, fn in c_entries(case):
        # the kernels must treat the settings struct as read-only (one struct serves all pairs of a matrix and all
        # threads): byte-compare it around every direct kernel call
        cs_obj = getattr(fn, 'cs', None)
        before = bytes(cs_obj) if cs_obj is not None else None
        c, cexc = libcall(fn)
        if cs_obj is not None and bytes(cs_obj) != before:
            res.fail('settings-modified:' + name, 'the kernel modified the DTWSettings struct it was handed')
        res.count('c_calls')
        if cexc:
            res.fail('%s:%s' % (name, cexc), 'C entry point raised; python=%r reference=%r' % (py, r),
                     )
            continue
        if py is None:
            continue
        if not ref.close(py, c):
            who = 'c-deviates' if (r is not None and ref.close(py, r)) else \
                ('python-deviates' if (r is not None and ref.close(c, r)) else 'both-deviate' if r is not None
                 else 'disagree')
            kind = 'matrix' if 'matrix' in name else ('kernel-ndim' if nd > 1 else 'kernel')
            res.fail('%s:%s:%s' % (kind, who, case.get('inner')),
                     '%s=%r python=%r reference=%r' % (name, c, py, r))
    return res


def legs(tier):
    ml = 8 if tier == 'quick' else 14
    a = Leg('diff', _case(ml), run, 20000, 240000, max_shrink_buckets=6)
    a.essential = {'psi*window': 0.02, 'unequal*window': 0.02, 'ndim=2': 0.05, 'inner=euclidean': 0.1}
    return [a]


REGIONS = {}
