# -*- coding: utf-8 -*-
"""C11 — multivariate DTW is DTW with vector point distances, in both engines (DESIGN.md §3 C11)."""
from hypothesis import strategies as st

from .. import gen, ref
from ..runner import Leg, Res, libcall
from . import c04, c05

PROPERTY = 'C11'
NEED_C = True
RULE = ('Pairs (plus a third series for matrices) of (length x d) series, d in 1..4, all C01 settings (window, penalty, psi '
        'forms, constructed max_step, both inner distances); containers: 2-D arrays (C-ordered, Fortran-ordered, transposed view of channel-first storage, strided, reversed), list of such arrays, 3-D array, list of '
        'lists of lists (Python). Routines: dtw_ndim.distance(_fast), warping_paths(_fast), warping_path, '
        'distance_matrix(_fast) (serial), ub_euclidean, ed_cc.distance_ndim, use_pruning on/off. Oracle: the univariate '
        'reference DP with d(i,j) = sum_k (x_ik - y_jk)^2 (or its square root); matrices with the C04 predicate, paths with '
        'the C05 predicate, distance matrices with the C06 pair list; for d = 1 every result equals the univariate routine '
        'on the flattened series; Python and C agree. Non-trivial: d >= 2, the dimensions are not copies of each other, '
        'both lengths >= 2.')
ASSUMPTIONS = ['finite doubles |x| <= 1e3, lengths <= 10, d <= 4']


@st.composite
def _case(draw, max_len):
    d = draw(st.sampled_from([1, 2, 2, 3, 4]))
    case = draw(gen.dtw_case(max_len=max_len, ndim=max(d, 2) if d > 1 else 2, inners=gen.INNER_NAMES, with_mld=False))
    if d == 1:
        case['s1'] = [[x[0]] for x in case['s1']]
        case['s2'] = [[x[0]] for x in case['s2']]
        # thresholds were constructed for 2-D points: rebuild for the 1-D points actually used
        case['max_step'] = None
    case['d'] = d
    base = 'L' if case.get('exact') else 'F'
    l3 = draw(st.integers(1, max_len))
    case['s3'] = draw(gen.series(l3, l3, base, d)) if d > 1 else [[x] for x in draw(gen.series(l3, l3, base, 1))]
    l4 = draw(st.integers(1, max_len))
    case['s4'] = draw(gen.series(l4, l4, base, d)) if d > 1 else [[x] for x in draw(gen.series(l4, l4, base, 1))]
    m = min(len(case['s1']), len(case['s2']), l3)
    p = gen.psi4(case['psi'])
    case['psi_matrix'] = min(min(p), max(0, m - 1))
    case['container'] = draw(st.sampled_from(['list-2d', 'list-2d', '3d', 'lists']))
    # memory layout of every (length x d) array handed to the library
    case['layout'] = draw(st.sampled_from(['ndarray', 'ndarray', 'F', 'Tview', 'strided', 'reversed']))
    case['keep_int_repr'] = draw(st.booleans())
    case['psi_neg'] = draw(st.booleans())
    case['max_dist'] = None
    case['slice'] = [0, len(case['s1']) + 1, 0, len(case['s2']) + 1]
    case['ndim'] = d
    return case


def run(case):
    import numpy as np
    from dtaidistance import dtw, dtw_ndim, ed_cc
    res = Res()
    s1, s2, s3, d, inner = case['s1'], case['s2'], case['s3'], case['d'], case['inner']
    l1, l2 = len(s1), len(s2)
    res.cls('d=%d' % d, 'inner=' + inner, 'container=' + case['container'])
    res.cls(*gen.classes_dtw(case))
    flat = [x for x in s1 + s2]
    copies = d >= 2 and all(all(v == x[0] for v in x) for x in flat)
    res.nontrivial = d >= 2 and not copies and l1 >= 2 and l2 >= 2
    rkw = gen.settings_kwargs(case, keys=('window', 'penalty', 'psi', 'max_step'))
    refd = ref.ref_dtw(s1, s2, **rkw)
    from . import c20
    lay = case.get('layout', 'ndarray')
    res.cls('layout=' + lay)
    a1, a2, a3 = (c20.make_series(s, lay, d) for s in (s1, s2, s3))
    kw = {'window': case['window'], 'penalty': case['penalty'], 'psi': gen.psi_to_lib(case['psi']),
          'max_step': case['max_step'], 'inner_dist': inner}
    vals = {}
    for name, fn in (('py.distance', lambda: dtw_ndim.distance(a1, a2, **kw)),
                     ('c.distance_fast', lambda: dtw_ndim.distance_fast(a1, a2, **kw)),
                     ('py.distance[lists]', lambda: dtw.distance([np.array(x) for x in s1], [np.array(x) for x in s2],
                                                                 use_ndim=True, **kw))):
        v, exc = libcall(fn)
        if exc:
            res.fail('%s:%s' % (name, exc), 'raised; reference %r' % refd)
            continue
        vals[name] = float(v)
        if not ref.close(v, refd):
            res.fail(name + ':value', '%s=%r reference=%r' % (name, v, refd))
    # pruning on/off identical where ED is a valid bound
    if not case['max_step'] and (not case['penalty'] or l1 == l2):
        for name, fn in (('py', dtw_ndim.distance), ('c', dtw_ndim.distance_fast)):
            v, exc = libcall(fn, a1, a2, use_pruning=True, **kw)
            if exc:
                res.fail('%s.pruning:%s' % (name, exc), 'use_pruning=True raised')
            elif not ref.close(v, refd):
                res.fail(name + '.pruning:value', 'use_pruning=True -> %r, reference %r' % (v, refd))
        # the accumulated-cost routines have their own pruning bound (psi-free for C: their psi handling beyond the
        # band is the open finding F11a)
        wfns = [('py', dtw_ndim.warping_paths, {})]
        if not any(gen.psi4(case['psi'])):
            wfns += [('c', dtw_ndim.warping_paths_fast, {}), ('c-compact', dtw_ndim.warping_paths_fast, {'compact': True})]
        for name, fn, extra in wfns:
            got, exc = libcall(fn, a1, a2, use_pruning=True, **extra, **kw)
            if exc:
                res.fail('%s.wps.pruning:%s' % (name, exc), 'warping_paths(use_pruning=True) raised')
            elif not ref.close(got[0], refd):
                res.fail(name + '.wps.pruning:value', 'warping_paths(use_pruning=True) returned %r, reference %r' % (got[0], refd))
    # upper bound
    e = ref.ref_ed(s1, s2, inner)
    for name, fn in (('dtw_ndim.ub_euclidean', lambda: dtw_ndim.ub_euclidean(a1, a2, inner_dist=inner)),
                     # the extension function itself takes the raw buffer (its callers make it C-contiguous first)
                     ('ed_cc.distance_ndim', lambda: ed_cc.distance_ndim(np.ascontiguousarray(a1), np.ascontiguousarray(a2),
                                                                         0 if inner == 'squared euclidean' else 1))):
        v, exc = libcall(fn)
        if exc:
            res.fail('%s:%s' % (name, exc), 'raised')
        elif not ref.close(v, e):
            res.fail(name + ':value', '%s=%r reference ED=%r' % (name, v, e))
    # cost matrix (C04 predicate) and path (C05 predicate)
    cells = ref.ref_cells(s1, s2, **rkw)
    res_fn = ref.INNER[inner][1]
    dint = ref.ref_dtw_internal(s1, s2, cells=cells, psi=rkw['psi'])
    exp_d = dint if case['keep_int_repr'] else (res_fn(dint) if dint != ref.inf else ref.inf)
    for eng, fn in (('py', dtw_ndim.warping_paths), ('c', dtw_ndim.warping_paths_fast)):
        got, exc = libcall(fn, a1, a2, psi_neg=case['psi_neg'], keep_int_repr=case['keep_int_repr'], **kw)
        if exc:
            res.fail('%s.warping_paths:%s' % (eng, exc), 'raised')
            continue
        dd, M = got
        M = [[float(x) for x in row] for row in np.asarray(M)]
        c04.check_matrix(res, eng + '.wps', case, float(dd), M, exp_d, cells)
    if refd != ref.inf:
        got, exc = libcall(dtw_ndim.warping_path, a1, a2, **kw)
        if exc:
            res.fail('py.warping_path:' + exc, 'raised')
        else:
            c05._check_path(res, 'py.warping_path', case, got, None, refd)
    # distance matrix: containers
    S = [s1, s2, s3]
    if case['container'] == '3d' and len({len(x) for x in S}) != 1:
        cont = 'list-2d'
    else:
        cont = case['container']
    mkw = {'window': case['window'], 'penalty': case['penalty'], 'psi': case['psi_matrix'] or None,
           'max_step': case['max_step'], 'inner_dist': inner}
    mref = dict(rkw)
    mref['psi'] = (case['psi_matrix'],) * 4
    expm = [ref.ref_dtw(S[r], S[c], **mref) for r, c in ((0, 1), (0, 2), (1, 2))]
    for eng in ('py', 'c'):
        if cont == '3d':
            data = np.array(S, dtype=np.double)
        elif cont == 'lists' and eng == 'py':
            data = [[list(p) for p in s] for s in S]
        else:
            data = [c20.make_series(s, lay, d) for s in S]
        got, exc = libcall(dtw_ndim.distance_matrix, data, ndim=d, compact=True, use_c=(eng == 'c'), parallel=False, **mkw)
        if exc:
            res.fail('%s.distance_matrix[%s]:%s' % (eng, cont, exc), 'raised')
            continue
        got = [float(x) for x in got]
        if len(got) != 3 or not all(ref.close(g, x) for g, x in zip(got, expm)):
            res.fail('%s.distance_matrix:value' % eng, 'distance_matrix=%r reference=%r (container %s)' % (got, expm, cont))
    # four series ordered by length, shortest first: the first pair is the smallest problem and the last pair the
    # largest, so anything one pair leaves behind for the next (settings, buffers) is too small for the later pairs
    S4 = sorted([s1, s2, s3, case.get('s4', s3)], key=len)
    pairs4 = [(r, c) for r in range(4) for c in range(r + 1, 4)]
    exp4 = [ref.ref_dtw(S4[r], S4[c], **mref) for r, c in pairs4]
    for eng in ('py', 'c'):
        data = [np.array(s, dtype=np.double) for s in S4]
        got, exc = libcall(dtw_ndim.distance_matrix, data, ndim=d, compact=True, use_c=(eng == 'c'), parallel=False, **mkw)
        if exc:
            res.fail('%s.distance_matrix4:%s' % (eng, exc), 'raised')
            continue
        got = [float(x) for x in got]
        if len(got) != 6 or not all(ref.close(g, x) for g, x in zip(got, exp4)):
            k = next((i for i, (g, x) in enumerate(zip(got, exp4)) if not ref.close(g, x)), None)
            res.fail('%s.distance_matrix4:value' % eng, 'four series of lengths %r: entry %r (pair %r) = %r, reference %r'
                     % ([len(x) for x in S4], k, pairs4[k] if k is not None else None,
                        got[k] if k is not None else got, exp4[k] if k is not None else exp4))
    # d = 1: the univariate routines on the flattened series
    if d == 1:
        f1, f2 = [x[0] for x in s1], [x[0] for x in s2]
        for name, fn in (('py', lambda: dtw.distance(f1, f2, **kw)),
                         ('c', lambda: dtw.distance_fast(np.array(f1), np.array(f2), **kw))):
            v, exc = libcall(fn)
            if exc:
                res.fail('flat.%s:%s' % (name, exc), 'univariate routine raised')
            else:
                for k, nv in vals.items():
                    if not ref.close(v, nv):
                        res.fail('flat:differs', 'd=1: %s=%r but univariate %s=%r' % (k, nv, name, v))
                        break
    return res


def legs(tier):
    ml = 7 if tier == 'quick' else 10
    return [Leg('ndim', _case(ml), run, 10000, 100000, max_shrink_buckets=8)]


def _psi_band(case, bucket, obs=None):
    return (bucket.startswith('c.wps')) and ref.psi_beyond_band(len(case['s1']), len(case['s2']), case['window'],
                                                                gen.psi4(case['psi']))


def _skipped_end(case, bucket, obs=None):
    return c05._region_skipped_end(case, bucket, obs)


REGIONS = {'c11_psi_beyond_band': _psi_band, 'c11_skipped_end_cells': _skipped_end}
