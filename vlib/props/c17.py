# -*- coding: utf-8 -*-
"""C17 — Needleman-Wunsch returns the optimal score and a consistent alignment (DESIGN.md §3 C17)."""
import itertools

from hypothesis import strategies as st

from .. import ref
from ..runner import Leg, Res, libcall

PROPERTY = 'C17'
NEED_C = False
RULE = ('Generated leg: two sequences over an alphabet of 2-4 symbols, lengths 0..7; scoring = default, or '
        'make_substitution_fn(dict, gap, opt) with generated (possibly asymmetric; a pair may be stored in one orientation only and then scores the same both ways) dictionaries '
        'of dyadic values, gap in {0.25,0.5,1,2,3}, opt in {max,min}; traceback order = one of the 6 permutations. '
        'Exhaustive leg: alphabet {A,B}, all 961 ordered pairs with lengths 0..4 x 6 orders, default scoring. '
        'Oracle: independent global-alignment DP, itself validated against the enumeration of all alignments when '
        '|s1|+|s2| <= 8; the reconstructed alignment is re-scored column by column. Non-trivial: both lengths >= 2 '
        'and the optimal alignment has a gap or a mismatch (optimum below the all-match score).')
ASSUMPTIONS = ['scores are dyadic rationals, so sums are exact and "equals" is checked exactly up to 1e-9',
               'dictionaries contain both (a,b) and (b,a) or neither, so the lookup order is never an issue',
               'window / max_dist / max_step / psi arguments of needleman_wunsch are left at their defaults '
               '(not part of the property)']

SYMS = 'ABCD'


def _cost_fn(case):
    """(pair cost, gap cost) in the min orientation, from the case description."""
    sc = case['scoring']
    if sc is None:
        return (lambda a, b: -1.0 if a == b else 1.0), 1.0
    mod = -1.0 if sc['opt'] == 'max' else 1.0
    mat = {(k[0], k[1]): v for k, v in sc['matrix'].items()}

    def cost(a, b):
        if (a, b) in mat:
            return mat[(a, b)] * mod
        if (b, a) in mat:
            return mat[(b, a)] * mod     # a pair stored in one orientation only scores the same both ways
        return -1.0 if a == b else 1.0
    return cost, float(sc['gap'])


def ref_nw(s1, s2, cost, gap, lead_gap=None):
    """Max total score over all global alignments = -(min total cost). lead_gap: cost of gaps before the first
    aligned pair (defect model of the library's border: 1 per leading gap whatever the gap cost)."""
    n, m = len(s1), len(s2)
    lg = gap if lead_gap is None else lead_gap
    T = [[0.0] * (m + 1) for _ in range(n + 1)]
    for j in range(1, m + 1):
        T[0][j] = j * lg
    for i in range(1, n + 1):
        T[i][0] = i * lg
    for i in range(1, n + 1):
        for j in range(1, m + 1):
            T[i][j] = min(T[i - 1][j - 1] + cost(s1[i - 1], s2[j - 1]), T[i - 1][j] + gap, T[i][j - 1] + gap)
    return -T[n][m]


def brute_nw(s1, s2, cost, gap):
    """Literal maximum over all global alignments (sequences of columns pair / gap-in-s1 / gap-in-s2)."""
    best = [None]

    def rec(i, j, c):
        if i == len(s1) and j == len(s2):
            if best[0] is None or c < best[0]:
                best[0] = c
            return
        if i < len(s1) and j < len(s2):
            rec(i + 1, j + 1, c + cost(s1[i], s2[j]))
        if i < len(s1):
            rec(i + 1, j, c + gap)
        if j < len(s2):
            rec(i, j + 1, c + gap)
    rec(0, 0, 0.0)
    return -best[0]


def run(case):
    from dtaidistance import alignment
    res = Res()
    s1, s2 = case['s1'], case['s2']
    cost, gap = _cost_fn(case)
    exp = ref_nw(s1, s2, cost, gap)
    if len(s1) + len(s2) <= 8:
        res.count('oracle_selfchecks')
        b = brute_nw(s1, s2, cost, gap)
        if not ref.close(b, exp):
            raise AssertionError('oracle self-check failed: brute=%r dp=%r %r' % (b, exp, case))
    allmatch = -sum(cost(a, a) for a in s1) if len(s1) == len(s2) else None
    res.nontrivial = len(s1) >= 2 and len(s2) >= 2 and (allmatch is None or exp < allmatch or s1 != s2)
    res.cls('scoring=' + ('default' if case['scoring'] is None else case['scoring']['opt']),
            'gap=%s' % gap, 'empty' if (not s1 or not s2) else 'nonempty')
    kw = {}
    if case['scoring'] is not None:
        sc = case['scoring']
        mat = {(k[0], k[1]): v for k, v in sc['matrix'].items()}
        kw['substitution'] = alignment.make_substitution_fn(mat, gap=sc['gap'], opt=sc['opt'])
    got, exc = libcall(alignment.needleman_wunsch, s1, s2, **kw)
    sfx = ''
    if (not s2) and s1:
        sfx = ':empty-s2'
    if exc:
        res.fail(exc + sfx, 'needleman_wunsch raised; optimum=%r' % exp)
        return res
    value, scores, paths = got
    defect = ref_nw(s1, s2, cost, gap, lead_gap=1.0)
    if not ref.close(value, exp):
        if gap != 1.0 and ref.close(value, defect):
            res.fail('value:border-gap', 'value=%r optimum=%r (matches a border that charges 1 per leading gap '
                     'instead of gap=%r)' % (value, exp, gap))
        else:
            res.fail('value', 'value=%r optimum=%r' % (value, exp))
    order = case['order']
    got2, exc = libcall(alignment.best_alignment, paths, s1, s2, gap='-', order=order)
    if exc:
        res.fail('best_alignment:' + exc, 'best_alignment raised')
        return res
    p, a1, a2 = got2
    if len(a1) != len(a2):
        res.fail('alignment:length', 'aligned sequences differ in length: %r %r' % (a1, a2))
        return res
    if [x for x in a1 if x != '-'] != list(s1) or [x for x in a2 if x != '-'] != list(s2):
        res.fail('alignment:reduce', 'removing gaps does not give back the inputs: %r %r' % (a1, a2))
        return res
    if any(x == '-' and y == '-' for x, y in zip(a1, a2)):
        res.fail('alignment:gapgap', 'gap aligned with gap: %r %r' % (a1, a2))
        return res
    sc = 0.0
    sc_defect = 0.0
    # defect model: the leading run of gaps on one side walks along the border (cost 1 each)
    side = None
    if a1 and (a1[0] == '-' or a2[0] == '-'):
        side = 1 if a1[0] == '-' else 2
    leading = side is not None
    for x, y in zip(a1, a2):
        if x == '-' or y == '-':
            if leading and (1 if x == '-' else 2) != side:
                leading = False
            sc -= gap
            sc_defect -= (1.0 if leading else gap)
        else:
            leading = False
            sc -= cost(x, y)
            sc_defect -= cost(x, y)
    if any(x == '-' or y == '-' for x, y in zip(a1, a2)):
        res.cls('alignment-has-gap')
    if not ref.close(sc, value):
        if gap != 1.0 and ref.close(sc_defect, value):
            res.fail('alignment:score:border-gap', 'alignment %r/%r scores %r, returned value %r (equal only if '
                     'leading gaps cost 1 instead of %r)' % (''.join(a1), ''.join(a2), sc, value, gap))
        else:
            res.fail('alignment:score', 'alignment %r/%r scores %r, returned value %r' % (''.join(a1), ''.join(a2),
                                                                                         sc, value))
    return res


DY = st.sampled_from([-3.0, -2.0, -1.0, -0.5, 0.0, 0.5, 1.0, 2.0, 3.0])


@st.composite
def _case(draw):
    k = draw(st.integers(2, 4))
    sym = st.sampled_from(SYMS[:k])
    s1 = ''.join(draw(st.lists(sym, min_size=0, max_size=7)))
    s2 = ''.join(draw(st.lists(sym, min_size=0, max_size=7)))
    if draw(st.integers(0, 3)) == 0:
        scoring = None
    else:
        mat = {}
        pairs = [(a, b) for a in SYMS[:k] for b in SYMS[:k] if a <= b]
        for (a, b) in pairs:
            if draw(st.booleans()):
                v = draw(DY)
                mat[a + b] = v
                if a != b:
                    o = draw(st.integers(0, 3))
                    if o == 0:
                        pass                      # stored in this orientation only (triangular dictionary)
                    elif o == 1:
                        del mat[a + b]            # ... or in the other orientation only
                        mat[b + a] = v
                    else:
                        mat[b + a] = v if o == 2 else draw(DY)
        scoring = {'matrix': mat, 'gap': draw(st.sampled_from([1.0, 1.0, 0.25, 0.5, 2.0, 3.0])),
                   'opt': draw(st.sampled_from(['max', 'min']))}
    order = list(draw(st.permutations([0, 1, 2])))
    return {'s1': s1, 's2': s2, 'scoring': scoring, 'order': order}


def _exhaustive():
    seqs = [''.join(t) for n in range(0, 5) for t in itertools.product('AB', repeat=n)]
    orders = [list(p) for p in itertools.permutations([0, 1, 2])]
    return [{'s1': a, 's2': b, 'scoring': None, 'order': o} for a in seqs for b in seqs for o in orders]


def legs(tier):
    return [Leg('generated', _case(), run, 20000, 200000),
            Leg('exhaustive-AB-len<=4', None, run, 0, 0, cases=_exhaustive)]


REGIONS = {
    # needleman_wunsch(s1, '') with non-empty s1: dp() returns a 2-tuple
    'c17_empty_second': lambda case, bucket: bucket.endswith(':empty-s2') and case['s2'] == '' and case['s1'] != '',
    # border initialised with 1 per leading gap whatever the gap cost
    'c17_border_gap': lambda case, bucket: bucket in ('value:border-gap', 'alignment:score:border-gap')
    and case['scoring'] is not None and case['scoring']['gap'] != 1.0,
}
