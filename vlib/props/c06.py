# -*- coding: utf-8 -*-
"""C06 — distance matrix = pairwise distances in the documented layout, any block (DESIGN.md §3 C06)."""
import array
import ctypes
import itertools

from hypothesis import strategies as st

from .. import gen, ref, capi
from ..runner import Leg, Res, libcall

PROPERTY = 'C06'
NEED_C = True
RULE = ('Generated leg: collections of 1..7 series, one case in 8 with 8..20 and one in 40 with 65..80 series (lengths 1..5, equal/unequal, ndim 1..3; list of lists / arrays / '
        'array.array, 2-D and 3-D arrays) x block (None, triangular, rectangular with explicit True/False flag, blocks '
        'selecting no pair) x compact/square/only_triu x a settings subset x {Python serial, C serial}. Oracle: the '
        'row-major list of selected (row, column) pairs written from the property text, each entry = reference DTW; '
        'square form = those values mirrored around a zero diagonal (upper triangle only with only_triu), inf elsewhere; '
        'distance_array_index addresses the same elements; engines identical. Exhaustive leg: for every n <= 5 (quick) / 7 '
        '(thorough) every block x flag: _distance_matrix_length, _distance_matrix_idxs (with NumPy and in a NumPy-free '
        'child), dtw_distances_length and the C loop order (length-1 series whose values encode the index). Non-trivial: '
        'a block is given, selects >= 1 pair, touches or crosses the diagonal, n >= 3.'
        ' psi is None, 1 or a per-series list with zeroed entries (lopsided relaxations, d(a,b) != d(b,a)); compact results are also converted with distances_array_to_matrix (both forms) and recomputed through the function object of distance_matrix_func.')
ASSUMPTIONS = ['block[2] is False with compact=False is rejected by the API and not generated',
               'with only_triu the diagonal is not fixed by the property (0 or inf accepted)']

inf = float('inf')


def ref_pairs(block, n):
    if block is None:
        return [(r, c) for r in range(n) for c in range(r + 1, n)]
    (rb, re_), (cb, ce) = block[0], block[1]
    triu = not (len(block) > 2 and block[2] is False)
    out = []
    for r in range(rb, min(re_, n)):
        cs = range(max(r + 1, cb), min(ce, n)) if triu else range(cb, min(ce, n))
        for c in cs:
            out.append((r, c))
    return out


@st.composite
def block_strategy(draw, n):
    if draw(st.integers(0, 3)) == 0:
        return None
    rb = draw(st.integers(0, n - 1))
    re_ = draw(st.integers(rb + 1, n))
    if n > 64 and draw(st.booleans()):
        rb = draw(st.integers(0, n - 65))       # a block of more than 64 rows
        re_ = draw(st.integers(rb + 65, n))
    cb = draw(st.integers(0, n - 1))
    ce = draw(st.integers(cb + 1, n))
    flag = draw(st.sampled_from(['absent', 'true', 'false']))
    b = [[rb, re_], [cb, ce]]
    if flag == 'true':
        b.append(True)
    elif flag == 'false':
        b.append(False)
    return b


def lib_block(b):
    if b is None:
        return None
    t = [tuple(b[0]), tuple(b[1])] + list(b[2:])
    return tuple(t)


@st.composite
def _case(draw):
    ndim = draw(st.sampled_from([1, 1, 1, 2, 3]))
    n = draw(gen.count(1, 7, 20, one_in=8))
    eq = draw(st.booleans())
    L0 = draw(st.integers(1, 5))
    series = []
    huge = draw(st.integers(0, 39)) == 0
    if huge:
        # more rows than any fixed batch / chunk / bit-field size (65..80 series of one or two samples)
        n = draw(st.integers(65, 80))
        L0 = draw(st.integers(1, 2))
        base = [draw(gen.series(L0, L0, 'L', ndim)) for _ in range(draw(st.integers(2, 6)))]
        series = [[x[:] if ndim > 1 else x for x in base[draw(st.integers(0, len(base) - 1))]] for _ in range(n)]
        eq = True
    for _ in range(0 if huge else n):
        L = L0 if eq else draw(st.integers(1, 8))
        series.append(draw(gen.series(L, L, 'L', ndim)))
    if not eq and draw(st.integers(0, 2)) == 0:
        # shortest first: the first pairs are the smallest problems, the last pairs the largest
        series.sort(key=len)
    if n >= 2 and draw(st.booleans()):
        series[draw(st.integers(0, n - 1))] = [x[:] if ndim > 1 else x for x in series[draw(st.integers(0, n - 1))]]
    lens = [len(s) for s in series]
    if ndim == 1:
        conts = ['list-list', 'list-ndarray', 'list-array', 'list-strided']
        if len(set(lens)) == 1:
            conts += ['2d', '2d-F', '2d-strided']
    else:
        conts = ['list-ndarray', 'list-list', 'list-strided']
        if len(set(lens)) == 1:
            conts += ['3d', '3d-F']
    case = {'series': series, 'ndim': ndim, 'container': draw(st.sampled_from(conts)),
            'block': draw(block_strategy(n)), 'window': draw(st.one_of(st.none(), st.integers(1, 6))),
            'penalty': draw(st.sampled_from([None, None, 0.5, 1.0])),
            'psi': None,
            'inner': draw(st.sampled_from(gen.INNER_NAMES)), 'form': draw(st.sampled_from(['compact', 'square', 'triu']))}
    if min(lens) >= 3:
        k = draw(st.sampled_from(['none', 'none', 'int', 'list', 'list']))
        if k == 'int':
            case['psi'] = 1
        elif k == 'list':
            # per-series relaxations (begin s1, end s1, begin s2, end s2), mostly lopsided: d(a, b) != d(b, a) then, so
            # which series of a pair is the row matters (entries below the diagonal of a non-triangular block)
            m = min(lens) - 1
            p = [draw(st.integers(0, m)) for _ in range(4)]
            mask = draw(st.integers(1, 15))
            case['psi'] = [v if (mask >> i) & 1 else 0 for i, v in enumerate(p)]
    if case['block'] is not None and len(case['block']) > 2 and case['block'][2] is False:
        case['form'] = 'compact'
    return case


def _container(case, eng):
    import numpy as np
    S = case['series']
    k = case['container']
    if k == '2d' or k == '3d':
        return np.array(S, dtype=np.double)
    if k in ('2d-F', '3d-F'):
        return np.asfortranarray(np.array(S, dtype=np.double))
    if k == '2d-strided':
        # every second row and every second column of a larger table: a view that is contiguous in no order
        a = np.array(S, dtype=np.double)
        big = np.full((2 * a.shape[0], 2 * a.shape[1]), 777.25)
        big[::2, ::2] = a
        return big[::2, ::2]
    if k == 'list-strided':
        # the series are non-contiguous views (a column of a table / every second sample), as in [m[:, j] for j in ..]
        out = []
        for s in S:
            a = np.array(s, dtype=np.double)
            if case['ndim'] == 1:
                big = np.full(2 * len(a), -555.5)
                big[::2] = a
                out.append(big[::2])
            else:
                big = np.full((a.shape[0], a.shape[1] + 2), -555.5)
                big[:, 1:-1] = a
                out.append(big[:, 1:-1])
        return out
    if k == 'list-ndarray' or (eng == 'c' and k == 'list-list'):
        return [np.array(s, dtype=np.double) for s in S]
    if k == 'list-array':
        return [array.array('d', s) for s in S]
    if case['ndim'] > 1:
        return [np.array(s, dtype=np.double) for s in S]   # the Python n-D engine needs vector arithmetic
    return [list(s) for s in S]


def run(case):
    import numpy as np
    from dtaidistance import dtw, dtw_ndim
    res = Res()
    S = case['series']
    n = len(S)
    nd = case['ndim']
    block = case['block']
    pairs = ref_pairs(block, n)
    kw = dict(window=case['window'], penalty=case['penalty'], psi=case['psi'], inner=case['inner'])
    exp = [ref.ref_dtw(S[r], S[c], **kw) for r, c in pairs]
    res.cls('ndim=%d' % nd, 'container=' + case['container'], 'form=' + case['form'],
            'block=' + ('none' if block is None else ('rect' if (len(block) > 2 and block[2] is False) else 'triu')))
    if block is not None and not pairs:
        res.cls('block-selects-nothing')
    touches = block is not None and any(r + 1 >= block[1][0] for r, c in pairs) and bool(pairs)
    res.nontrivial = block is not None and bool(pairs) and n >= 3 and touches
    lkw = {'window': case['window'], 'penalty': case['penalty'], 'psi': case['psi'], 'inner_dist': case['inner']}
    results = {}
    for eng in ('py', 'c'):
        data = _container(case, eng)
        extra = {'compact': case['form'] == 'compact', 'only_triu': case['form'] == 'triu'}
        if nd == 1:
            got, exc = libcall(dtw.distance_matrix, data, block=lib_block(block), use_c=(eng == 'c'), parallel=False,
                               **extra, **lkw)
        else:
            got, exc = libcall(dtw_ndim.distance_matrix, data, ndim=nd, block=lib_block(block), use_c=(eng == 'c'),
                               parallel=False, **extra, **lkw)
        if exc:
            res.fail('%s:%s' % (eng, exc), 'distance_matrix raised (block=%r, form=%s)' % (block, case['form']))
            continue
        # a returned matrix belongs to the caller: a later call (other collection size, no block) must not change it
        snap = [float(v) for v in np.asarray(got, dtype=float).ravel()]
        sub = data[:max(1, n - 1)]
        if nd == 1:
            libcall(dtw.distance_matrix, sub, use_c=(eng == 'c'), parallel=False, compact=True, **lkw)
        else:
            libcall(dtw_ndim.distance_matrix, sub, ndim=nd, use_c=(eng == 'c'), parallel=False, compact=True, **lkw)
        now = [float(v) for v in np.asarray(got, dtype=float).ravel()]
        if len(now) != len(snap) or any(not (a == b or (a != a and b != b)) for a, b in zip(now, snap)):
            res.fail(eng + ':result-overwritten', 'the matrix returned for block=%r changed (%d -> %d values) when another '
                     'matrix was computed afterwards' % (block, len(snap), len(now)))
            continue
        if case['form'] == 'compact':
            vals = [float(v) for v in got]
            results[eng] = vals
            if len(vals) != len(exp):
                res.fail(eng + ':compact-length', 'compact length %d, %d pairs selected by block %r'
                         % (len(vals), len(exp), block))
                continue
            for k, (v, e) in enumerate(zip(vals, exp)):
                if not ref.close(v, e):
                    res.fail(eng + ':compact-value', 'entry %d (pair %r) = %r, reference %r' % (k, pairs[k], v, e))
                    break
            else:
                _to_matrix(res, eng, case, got, pairs, exp, data, lkw)
        else:
            M = np.asarray(got, dtype=float)
            results[eng] = [float(v) for v in M.ravel()]
            if M.shape != (n, n):
                res.fail(eng + ':square-shape', 'shape %r for %d series' % (M.shape, n))
                continue
            E = [[inf] * n for _ in range(n)]
            for (r, c), e in zip(pairs, exp):
                E[r][c] = e
                if case['form'] == 'square':
                    E[c][r] = e
            bad = None
            for a in range(n):
                for b in range(n):
                    v = float(M[a, b])
                    if a == b:
                        ok = (v == 0.0) if case['form'] == 'square' else (v == 0.0 or v == inf)
                    else:
                        ok = ref.close(v, E[a][b])
                    if not ok:
                        bad = (a, b, v, E[a][b] if a != b else 0.0)
                        break
                if bad:
                    break
            if bad:
                res.fail(eng + ':square-value', 'M[%d,%d]=%r, expected %r (block=%r, form=%s)'
                         % (bad + (block, case['form'])))
    if 'py' in results and 'c' in results and len(results['py']) == len(results['c']):
        for k, (a, b) in enumerate(zip(results['py'], results['c'])):
            if not (ref.close(a, b)):
                res.fail('engines-differ', 'element %d: python %r, C %r' % (k, a, b))
                break
    # condensed-index helper addresses the same elements (full matrix)
    if block is None and n >= 2 and nd == 1 and case['form'] == 'compact' and 'py' in results \
            and len(results['py']) == len(exp):
        for (r, c), e in zip(pairs, exp):
            for a, b in ((r, c), (c, r)):
                idx, exc = libcall(dtw.distance_array_index, a, b, n)
                if exc:
                    res.fail('index:' + exc, 'distance_array_index(%d,%d,%d) raised' % (a, b, n))
                    return res
                if not (0 <= idx < len(exp)) or not ref.close(results['py'][idx], e):
                    res.fail('index:value', 'distance_array_index(%d,%d,%d)=%r does not address d(%d,%d)' % (a, b, n, idx, r, c))
                    return res
    return res


def _to_matrix(res, eng, case, got, pairs, exp, data, lkw):
    """The documented conversion of a compact result into the square form (distances_array_to_matrix, both forms), and
    the function object distance_matrix_func hands to the clustering code: same data, same layout."""
    import numpy as np
    from dtaidistance import dtw
    n, block = len(case['series']), case['block']
    if block is not None and len(block) > 2 and block[2] is False:
        return      # the square form of a non-triangular block is rejected by the API
    for triu in (False, True):
        M, exc = libcall(dtw.distances_array_to_matrix, got, n, block=lib_block(block), only_triu=triu)
        if exc:
            res.fail('%s:to_matrix:%s' % (eng, exc), 'distances_array_to_matrix raised (block=%r)' % (block,))
            return
        M = np.asarray(M, dtype=float)
        if M.shape != (n, n):
            res.fail(eng + ':to_matrix:shape', 'shape %r for %d series' % (M.shape, n))
            return
        E = [[inf] * n for _ in range(n)]
        for (r, c), e in zip(pairs, exp):
            E[r][c] = e
            if not triu:
                E[c][r] = e
        for a in range(n):
            for b in range(n):
                v = float(M[a, b])
                ok = ((v == 0.0) if not triu else (v == 0.0 or v == inf)) if a == b else ref.close(v, E[a][b])
                if not ok:
                    res.fail(eng + ':to_matrix:value', 'distances_array_to_matrix(only_triu=%r)[%d,%d]=%r, expected %r (block=%r)'
                             % (triu, a, b, v, E[a][b] if a != b else 0.0, block))
                    return
    if case['ndim'] == 1:
        f = dtw.distance_matrix_func(use_c=(eng == 'c'))
        got2, exc = libcall(f, data, block=lib_block(block), compact=True, **lkw)
        if exc:
            res.fail('%s:matrix_func:%s' % (eng, exc), 'the function returned by distance_matrix_func raised')
        elif [float(v) for v in got2] != [float(v) for v in got]:
            res.fail(eng + ':matrix_func:differs', 'distance_matrix_func(...)(...) = %r, distance_matrix = %r'
                     % ([float(v) for v in got2][:6], [float(v) for v in got][:6]))


# ------------------------------------------------------------------------------------------------------
# exhaustive bookkeeping sub-space
# ------------------------------------------------------------------------------------------------------
def _all_blocks(nmax):
    out = []
    for n in range(1, nmax + 1):
        out.append({'n': n, 'block': None})
        rng = [(a, b) for a in range(n) for b in range(a + 1, n + 1)]
        for (rb, re_), (cb, ce) in itertools.product(rng, rng):
            for flag in ('absent', True, False):
                b = [[rb, re_], [cb, ce]]
                if flag != 'absent':
                    b.append(flag)
                out.append({'n': n, 'block': b})
    return out


def run_book(case):
    from dtaidistance import dtw
    res = Res()
    n, block = case['n'], case['block']
    pairs = ref_pairs(block, n)
    res.nontrivial = block is not None and bool(pairs) and n >= 3
    lb = lib_block(block)
    ln, exc = libcall(dtw._distance_matrix_length, lb, n)
    if exc:
        res.fail('length:' + exc, '_distance_matrix_length raised for %r' % (block,))
    elif ln != len(pairs):
        res.fail('length', '_distance_matrix_length(%r, %d) = %r, %d pairs selected' % (block, n, ln, len(pairs)))
    idxs, exc = libcall(dtw._distance_matrix_idxs, lb, n)
    if exc:
        res.fail('idxs:' + exc, '_distance_matrix_idxs raised for %r' % (block,))
    else:
        got = list(zip([int(x) for x in idxs[0]], [int(x) for x in idxs[1]]))
        if got != pairs:
            res.fail('idxs', '_distance_matrix_idxs(%r, %d) = %r, expected %r' % (block, n, got[:6], pairs[:6]))
    # NumPy-free interpreter
    from .. import childclient
    ch = childclient.get(nonumpy=True)
    rep = ch.call('dtw._distance_matrix_idxs', [block, n])
    if 'exc' in rep:
        res.fail('idxs-nonumpy:' + rep['exc'], '_distance_matrix_idxs (no numpy) raised for %r' % (block,))
    else:
        got = list(zip(rep['ok'][0], rep['ok'][1]))
        if [tuple(x) for x in got] != pairs:
            res.fail('idxs-nonumpy', '_distance_matrix_idxs (no numpy)(%r, %d) = %r, expected %r'
                     % (block, n, got[:6], pairs[:6]))
    # C: advertised length and loop order
    L = capi.lib('dtw_cc')
    cb = capi.block(lb, n)
    cl = L.dtw_distances_length(ctypes.byref(cb), n, n)
    if cl != len(pairs):
        res.fail('c-length', 'dtw_distances_length(%r, %d) = %r, %d pairs selected' % (block, n, cl, len(pairs)))
        return res
    vals = [float(2 ** i) for i in range(n)]
    arrs = [capi.darr([v]) for v in vals]
    ptrs = (capi.seq_p * n)(*[capi.ptr(a) for a in arrs])
    lens = (capi.idx_t * n)(*([1] * n))
    CAN = -4242.0
    m = len(pairs)
    outb = (capi.seq_t * (m + 8))(*([CAN] * (m + 8)))
    cs = capi.settings()
    cb = capi.block(lb, n)
    op = ctypes.cast(ctypes.addressof(outb) + 4 * 8, capi.seq_p)
    r = L.dtw_distances_ptrs(ptrs, n, lens, op, ctypes.byref(cb), ctypes.byref(cs))
    if any(outb[k] != CAN for k in list(range(4)) + list(range(m + 4, m + 8))):
        res.fail('c-order:canary', 'dtw_distances_ptrs wrote outside the advertised length for %r' % (block,))
    elif r != m:
        res.fail('c-order:return', 'dtw_distances_ptrs returned %r, expected %d' % (r, m))
    else:
        got = [outb[4 + k] for k in range(m)]
        expv = [abs(vals[a] - vals[b]) for a, b in pairs]
        if got != expv:
            res.fail('c-order', 'dtw_distances_ptrs order for %r: %r, expected %r' % (block, got[:6], expv[:6]))
    return res


def legs(tier):
    nmax = 5 if tier == 'quick' else 7
    return [Leg('matrix', _case(), run, 10000, 100000, max_shrink_buckets=6),
            Leg('exhaustive-blocks', None, run_book, 0, 0, cases=lambda: _all_blocks(nmax))]


REGIONS = {}
