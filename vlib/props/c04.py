# -*- coding: utf-8 -*-
"""C04 — accumulated-cost matrix is cell-wise optimal and identical across engines (DESIGN.md §3 C04)."""
import ctypes
import math

from hypothesis import strategies as st

from .. import gen, ref, capi, inner as vinner
from ..runner import Leg, Res, libcall

PROPERTY = 'C04'
NEED_C = True
RULE = ('C01 cases (1-D and n-D, both inner distances, two custom objects for the Python engine) plus constructed '
        'max_dist thresholds (between accumulated costs of the reference table), keep_int_repr x psi_neg, evaluated by '
        'four engines: Python warping_paths, C full matrix, C compact matrix expanded by dtw_expand_wps, C compact matrix '
        'expanded slice-wise by dtw_expand_wps_slice for a generated slice. Oracle (validity predicate leaving exactly the '
        'freedom the property grants): shape; every in-band cell equals the transformed reference optimum unless that '
        'optimum exceeds max_dist (then inf or any value above the bound); out-of-band cells inf; -1 only with psi_neg, '
        'only as the tail of the last row / last column beyond an end cell that holds the returned distance; returned '
        'distance = reference = distance-only routine of the same engine; border row/column equal across engines. '
        'Non-trivial: lengths >= 3 and (band narrower than the matrix, or psi != 0, or a cell above max_dist). The '
        'signature of non-empty compact regions A-D (dtw_wps_parts) is tracked as a class.')
ASSUMPTIONS = ['finite doubles |x| <= 1e3, lengths <= 12, ndim <= 2; max_length_diff not generated (warping_paths returns '
               'a bare inf then)', 'relative tolerance 1e-9 on cell values']

inf = float('inf')


@st.composite
def _case(draw, max_len):
    ndim = draw(st.sampled_from([1, 1, 1, 2]))
    case = draw(gen.dtw_case(max_len=max_len, ndim=ndim, inners=gen.INNER_ALL if ndim == 1 else gen.INNER_NAMES,
                             with_mld=False))
    case['ndim'] = ndim
    case['keep_int_repr'] = draw(st.booleans())
    case['psi_neg'] = draw(st.booleans())
    l1, l2 = len(case['s1']), len(case['s2'])
    case['max_dist'] = None
    if draw(st.integers(0, 2)) == 0:
        kw = gen.settings_kwargs(case, keys=('window', 'penalty', 'psi', 'max_step'))
        cells = ref.ref_cells(case['s1'], case['s2'], **kw)
        res_fn = ref.INNER[case['inner']][1]
        vals = sorted(set(res_fn(v) for v in cells.values()))
        case['max_dist'] = draw(gen.threshold_between(vals, exact_ok=False, allow_none=False))
    rb = draw(st.integers(0, l1))
    re_ = draw(st.integers(rb + 1, l1 + 1))
    cb = draw(st.integers(0, l2))
    ce = draw(st.integers(cb + 1, l2 + 1))
    if draw(st.booleans()):
        rb, cb, ce = 0, 0, l2 + 1      # prefix of complete rows
    case['slice'] = [rb, re_, cb, ce]
    return case


def _lib_kw(case, for_c=False):
    kw = {'window': case['window'], 'penalty': case['penalty'], 'psi': gen.psi_to_lib(case['psi']),
          'max_step': case['max_step'], 'max_dist': case['max_dist']}
    kw['inner_dist'] = case['inner'] if for_c else vinner.lib_inner(case['inner'])
    return kw


def check_matrix(res, tag, case, d, M, expect_d, cells):
    """The validity predicate. M: list of rows (floats)."""
    s1, s2 = case['s1'], case['s2']
    l1, l2 = len(s1), len(s2)
    w = case['window']
    inner = case['inner']
    res_fn, ival = ref.INNER[inner][1], ref.INNER[inner][2]
    T = (lambda v: v) if case['keep_int_repr'] else res_fn
    md = case['max_dist']
    md_int = ival(md) if md else inf
    md_rep = (md_int if case['keep_int_repr'] else md) if md else inf
    p1b, p1e, p2b, p2e = gen.psi4(case['psi'])
    if len(M) != l1 + 1 or any(len(r) != l2 + 1 for r in M):
        res.fail(tag + ':shape', 'matrix shape %dx%d, expected %dx%d' % (len(M), len(M[0]) if M else 0, l1 + 1, l2 + 1))
        return
    # returned distance
    exp_d = expect_d
    if not ref.close(d, exp_d):
        res.fail(tag + ':distance', 'returned distance %r, reference %r' % (d, exp_d))
    neg = set()
    for i in range(l1):
        for j in range(l2):
            v = M[i + 1][j + 1]
            if v == -1:
                neg.add((i, j))
                continue
            if isinstance(v, float) and math.isnan(v):
                res.fail(tag + ':nan', 'cell (%d,%d) is nan' % (i + 1, j + 1))
                return
            if not ref.in_band(i, j, l1, l2, w):
                if v != inf:
                    res.fail(tag + ':out-of-band', 'cell (%d,%d) outside the band holds %r' % (i + 1, j + 1, v))
                    return
                continue
            R = cells.get((i, j))
            if R is not None and R <= md_int:
                if not ref.close(v, T(R)):
                    res.fail(tag + ':cell', 'cell (%d,%d)=%r, optimum %r' % (i + 1, j + 1, v, T(R)))
                    return
            else:
                if not (v == inf or (md and v > md_rep)):
                    res.fail(tag + ':cell-above-bound', 'cell (%d,%d)=%r but its optimum is %s'
                             % (i + 1, j + 1, v, 'unreachable' if R is None else 'above max_dist (%r)' % T(R)))
                    return
    # -1 markers
    if neg:
        if not case['psi_neg']:
            res.fail(tag + ':neg-unrequested', '-1 cells %r although psi_neg is off' % sorted(neg)[:4])
            return
        ok = False
        js = sorted(j for (i, j) in neg if i == l1 - 1)
        iis = sorted(i for (i, j) in neg if j == l2 - 1)
        # tail of the last row beyond the end cell (l1-1, js[0]-1) = matrix cell (l1, js[0])
        if len(js) == len(neg) and js == list(range(js[0], l2)) and js[0] - 1 >= l2 - 1 - p2e and js[0] >= 1:
            ok = ref.close(M[l1][js[0]], d)
        # tail of the last column beyond the end cell (iis[0]-1, l2-1) = matrix cell (iis[0], l2)
        if not ok and len(iis) == len(neg) and iis == list(range(iis[0], l1)) and iis[0] - 1 >= l1 - 1 - p1e \
                and iis[0] >= 1:
            ok = ref.close(M[iis[0]][l2], d)
        if d == inf:
            ok = True   # distance above max_dist: the cell before the tail may legitimately hold anything above the bound
        if not ok:
            res.fail(tag + ':neg-placement', '-1 cells %r are not the tail of the last row/column beyond a cell holding '
                     'the returned distance %r (psi=%r)' % (sorted(neg)[:6], d, (p1b, p1e, p2b, p2e)))
    elif case['psi_neg'] and (p1e or p2e) and d != inf:
        # marking requested: if nothing is marked the distance must sit in the corner
        corner = M[l1][l2]
        if not ref.close(corner, d):
            res.fail(tag + ':neg-missing', 'psi_neg requested, distance %r taken from a relaxed end cell, but no cell is '
                     'marked -1 (corner holds %r)' % (d, corner))


def run(case):
    import numpy as np
    from dtaidistance import dtw, dtw_ndim
    res = Res()
    s1, s2 = case['s1'], case['s2']
    l1, l2 = len(s1), len(s2)
    nd = case['ndim']
    inner = case['inner']
    res.cls(*gen.classes_dtw(case))
    res.cls('ndim=%d' % nd, 'keep_int' if case['keep_int_repr'] else 'transformed',
            'psi_neg' if case['psi_neg'] else 'no-neg')
    kw = gen.settings_kwargs(case, keys=('window', 'penalty', 'psi', 'max_step'))
    cells = ref.ref_cells(s1, s2, **kw)
    res_fn, ival = ref.INNER[inner][1], ref.INNER[inner][2]
    dint = ref.ref_dtw_internal(s1, s2, cells=cells, psi=kw['psi'])
    md = case['max_dist']
    if md and dint > ival(md):
        dint = inf
    # what the routine reports: internal representation with keep_int_repr, transformed otherwise
    exp_d = dint if case['keep_int_repr'] else (res_fn(dint) if dint != inf else inf)
    above = md and any(v > ival(md) for v in cells.values())
    if above:
        res.cls('cell-above-max_dist')
    w = case['window']
    narrow = w is not None and min(l2 + 1, abs(l1 - l2) + 2 * w + 1) < l2 + 1
    res.nontrivial = l1 >= 3 and l2 >= 3 and bool(narrow or any(gen.psi4(case['psi'])) or above)
    a1 = np.array(s1, dtype=np.double)
    a2 = np.array(s2, dtype=np.double)
    mats = {}
    # (a) Python
    p1 = a1 if nd > 1 else list(s1)
    p2 = a2 if nd > 1 else list(s2)
    got, exc = libcall(dtw.warping_paths, p1, p2, psi_neg=case['psi_neg'], keep_int_repr=case['keep_int_repr'],
                       use_ndim=(nd > 1), **_lib_kw(case))
    if exc:
        res.fail('py:' + exc, 'dtw.warping_paths raised')
    else:
        d, M = got
        M = [[float(x) for x in row] for row in np.asarray(M)]
        mats['py'] = M
        check_matrix(res, 'py', case, float(d), M, exp_d, cells)
        if not case['keep_int_repr']:
            dd, exc = libcall(dtw.distance, p1, p2, use_ndim=(nd > 1), **_lib_kw(case))
            if exc is None and not ref.close(dd, d):
                res.fail('py:distance-routine', 'warping_paths distance %r, distance() %r' % (d, dd))
    if inner.startswith('custom'):
        return res
    ckw = _lib_kw(case, for_c=True)
    # (b) C full
    got, exc = libcall(dtw.warping_paths_fast, a1, a2, psi_neg=case['psi_neg'], keep_int_repr=case['keep_int_repr'],
                       compact=False, use_ndim=(nd > 1), **ckw)
    if exc:
        res.fail('c-full:' + exc, 'dtw.warping_paths_fast raised')
    else:
        d, M = got
        M = [[float(x) for x in row] for row in np.asarray(M)]
        mats['c-full'] = M
        check_matrix(res, 'c-full', case, float(d), M, exp_d, cells)
        if not case['keep_int_repr']:
            dd, exc = libcall(dtw.distance_fast, a1, a2, use_ndim=(nd > 1), **ckw)
            if exc is None and not ref.close(dd, d):
                res.fail('c-full:distance-routine', 'warping_paths_fast distance %r, distance_fast() %r' % (d, dd))
    # (b2) the same matrix asked for through warping_paths(use_c=True)
    got, exc = libcall(dtw.warping_paths, a1, a2, psi_neg=case['psi_neg'], keep_int_repr=case['keep_int_repr'],
                       use_c=True, use_ndim=(nd > 1), **ckw)
    if exc:
        res.fail('c-full(use_c):' + exc, 'dtw.warping_paths(use_c=True) raised')
    else:
        d, M = got
        check_matrix(res, 'c-full(use_c)', case, float(d), [[float(x) for x in row] for row in np.asarray(M)], exp_d, cells)
    # (b3) the extension's own entry point writing into a caller-supplied matrix that is not freshly inf-filled (a buffer
    # reused from an earlier call): every cell of the result must be written
    from dtaidistance import dtw_cc
    dirty = np.full((l1 + 1, l2 + 1), [0.0, 7.5, -1.0][(l1 + 2 * l2) % 3], dtype=np.double)
    ekw = {k: (0 if v is None else v) for k, v in ckw.items()}
    ekw['psi'] = gen.psi_to_lib(case['psi']) or 0
    if nd == 1:
        got, exc = libcall(dtw_cc.warping_paths, dirty, a1, a2, case['psi_neg'], case['keep_int_repr'], **ekw)
    else:
        got, exc = libcall(dtw_cc.warping_paths_ndim, dirty, a1, a2, case["psi_neg"], case["keep_int_repr"], **ekw)
    if exc:
        res.fail('c-full(reused-buffer):' + exc, 'dtw_cc.warping_paths raised')
    else:
        check_matrix(res, 'c-full(reused-buffer)', case, float(got), [[float(x) for x in row] for row in dirty], exp_d, cells)
    # (c) C compact + expansion, (d) + slice expansion  -- through ctypes, buffers of exactly the advertised size
    got, exc = libcall(dtw.warping_paths_fast, a1, a2, psi_neg=case['psi_neg'], keep_int_repr=case['keep_int_repr'],
                       compact=True, use_ndim=(nd > 1), **ckw)
    if exc:
        res.fail('c-compact:' + exc, 'dtw.warping_paths_fast(compact=True) raised')
        return res
    d, W = got
    W = np.ascontiguousarray(W, dtype=np.double)
    L = capi.lib('dtw_cc')
    cs = capi.settings(window=case['window'], max_dist=case['max_dist'], max_step=case['max_step'],
                       penalty=case['penalty'], psi=gen.psi4(case['psi']), inner_dist=inner)
    parts = L.dtw_wps_parts(l1, l2, ctypes.byref(cs))
    sig = ''.join(ch for ch, on in (('A', parts.ri1 > 0), ('B', parts.ri2 > parts.ri1), ('C', parts.ri3 > parts.ri2),
                                    ('D', l1 > parts.ri3)) if on)
    res.cls('regions=' + sig)
    if W.shape != (l1 + 1, parts.width) or parts.length != (l1 + 1) * parts.width:
        res.fail('c-compact:shape', 'compact shape %r, dtw_wps_parts width %d length %d' % (W.shape, parts.width,
                                                                                           parts.length))
        return res
    wp = W.ctypes.data_as(capi.seq_p)
    full = (capi.seq_t * ((l1 + 1) * (l2 + 1)))()
    L.dtw_expand_wps(wp, full, l1, l2, ctypes.byref(cs))
    M = [[full[r * (l2 + 1) + c] for c in range(l2 + 1)] for r in range(l1 + 1)]
    mats['c-compact'] = M
    check_matrix(res, 'c-compact', case, float(d), M, exp_d, cells)
    rb, re_, cb, ce = case['slice']
    n = (re_ - rb) * (ce - cb)
    # canary margins (each as large as the whole matrix: index errors in this routine are row/column offsets)
    # around a buffer of exactly the advertised size
    mg = (l1 + 2) * (l2 + 2) + 8
    buf = (capi.seq_t * (n + 2 * mg))()
    for k in range(n + 2 * mg):
        buf[k] = 12345.678
    sl = ctypes.cast(ctypes.addressof(buf) + 8 * mg, capi.seq_p)
    L.dtw_expand_wps_slice(wp, sl, l1, l2, rb, re_, cb, ce, ctypes.byref(cs))
    if any(buf[k] != 12345.678 for k in list(range(mg)) + list(range(n + mg, n + 2 * mg))):
        res.fail('c-slice:canary', 'dtw_expand_wps_slice wrote outside its (re-rb)*(ce-cb) buffer, slice %r' % (case['slice'],))
    else:
        for r in range(rb, re_):
            for c in range(cb, ce):
                v = buf[mg + (r - rb) * (ce - cb) + (c - cb)]
                e = M[r][c]
                if not (v == e or (v != v and e != e)):
                    res.fail('c-slice:cell', 'slice %r: cell (%d,%d)=%r, full expansion %r' % (case['slice'], r, c, v, e))
                    break
            else:
                continue
            break
    # border row / column: equal across engines
    names = list(mats)
    for k in names[1:]:
        A, B = mats[names[0]], mats[k]
        if len(A) != len(B):
            continue
        # only border cells that an in-band cell reads (diagonal / up / left neighbour) carry meaning
        live_c = [c for c in range(l2 + 1) if (c < l2 and ref.in_band(0, c, l1, l2, w)) or
                  (c >= 1 and ref.in_band(0, c - 1, l1, l2, w))]
        live_r = [r for r in range(l1 + 1) if (r < l1 and ref.in_band(r, 0, l1, l2, w)) or
                  (r >= 1 and ref.in_band(r - 1, 0, l1, l2, w))]
        bad = [(0, c) for c in live_c if A[0][c] != B[0][c]] + [(r, 0) for r in live_r if A[r][0] != B[r][0]]
        if bad:
            r, c = bad[0]
            res.fail('border:%s-vs-%s' % (names[0], k), 'border cell (%d,%d): %r vs %r' % (r, c, A[r][c], B[r][c]))
    return res


def _all_shapes(nmax):
    """Every (len1, len2, window) up to nmax with one fixed data pattern and a complete-rows slice: the compact layout
    (four row regions) and its expansion depend on the shape only."""
    out = []
    for l1 in range(1, nmax + 1):
        for l2 in range(1, nmax + 1):
            for w in range(1, max(l1, l2) + 1):
                out.append({'s1': [((i * 7) % 5) / 2.0 for i in range(l1)], 's2': [((j * 3 + 1) % 5) / 2.0 for j in range(l2)],
                            'regime': 'L', 'exact': True, 'window': w, 'penalty': 0.5 if (l1 + l2 + w) % 2 else None, 'psi': None,
                            'psi_repairs': 0, 'inner': 'squared euclidean' if (l1 + w) % 3 else 'euclidean', 'max_step': None,
                            'max_length_diff': None, 'ndim': 1, 'keep_int_repr': bool((l1 + l2) % 2), 'psi_neg': True,
                            'max_dist': None, 'slice': [0, 1 + (l1 + 1) // 2, 0, l2 + 1]})
    return out


def legs(tier):
    ml = 8 if tier == 'quick' else 12
    a = Leg('matrix', _case(ml), run, 12000, 120000, max_shrink_buckets=8)
    a.essential = {'regions=ABD': 0.0}
    nmax = 14 if tier == 'quick' else 24
    return [a, Leg('all-shapes', None, run, 0, 0, cases=lambda: _all_shapes(nmax))]


def _c_bucket(bucket):
    return bucket.startswith(('c-full:', 'c-full(use_c):', 'c-full(reused-buffer):', 'c-compact:', 'c-slice:', 'border:'))


def _region_psi_band(case, bucket, obs=None):
    """F04a: C warping-paths kernels with a psi relaxation wider than the window band."""
    return _c_bucket(bucket) and ref.psi_beyond_band(len(case['s1']), len(case['s2']), case['window'],
                                                     gen.psi4(case['psi']))


def _region_slice(case, bucket, obs=None):
    """F04b: dtw_expand_wps_slice for slices other than a prefix of complete rows."""
    rb, re_, cb, ce = case['slice']
    return bucket.startswith('c-slice:') and (rb > 0 or cb > 0 or ce < len(case['s2']) + 1)


REGIONS = {'c04_psi_beyond_band': _region_psi_band, 'c04_partial_slice': _region_slice}
