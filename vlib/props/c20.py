# -*- coding: utf-8 -*-
"""C20 — calls are pure: inputs untouched, container- and history-independent (DESIGN.md §3 C20)."""
import array
import copy

from hypothesis import strategies as st

from .. import gen, ref
from ..runner import Leg, Res, libcall

PROPERTY = 'C20'
NEED_C = True
RULE = ('A registry of public routines (distance / distance_fast, warping_paths(_fast), warping_path(_fast), warp, lb_keogh '
        'both engines, ub_euclidean, ed.distance(_fast), serial distance matrices both engines, dtw_ndim.*, dba / dba_loop '
        'both engines, subsequence_alignment, subsequence_search, Hierarchical.fit, KMeans.fit seeded) x a container '
        'representation drawn independently per series argument: list, tuple, array.array, C-contiguous ndarray, strided '
        'view, reversed view, integer-valued data also as Python ints / int64 arrays (Python engine) and as lists of int64 / float32 arrays or integer array.array (C collection routines, which take a list of buffers); collections as list of '
        'arrays, 2-D / 3-D array, F-ordered or strided 2-D view, SeriesContainer. Oracles: (1) a deep snapshot of every '
        'input (bytes of the owning buffer, strides, list contents) is identical after the call; (2) the result equals '
        'the result on canonical inputs (fresh C-contiguous float64 copies; lists for the Python engine); (3) a second '
        'call returns the identical result; (4) history leg: a pool of shared series, settings dicts and model objects, '
        'generated call sequences; every result must equal the result obtained with fresh copies of the original '
        'objects; (5) NumPy-free child for routines that do not need NumPy. Non-trivial: an argument is in a '
        'non-canonical representation, or the call is a repeat / shares objects with an earlier call. Leg average-layout: the initial average of dba / dba_loop (both engines) as strided / reversed / Fortran / transposed view, array.array or list: same result as for a contiguous float64 array, average untouched.'
        ' dba_loop with the C engine also without threshold (thr=None), without initial average, and with the initial average as given (first series of the caller).')
ASSUMPTIONS = ['series are float64; values |x| <= 1e3; lengths <= 8', 'K-means / random choices are seeded inside the case']


# ------------------------------------------------------------------------------------------------------
# containers
# ------------------------------------------------------------------------------------------------------
SERIES_C = ['ndarray', 'strided', 'reversed', 'array', 'ndarray']          # accepted by the C entry points
SERIES_PY = ['list', 'tuple', 'array', 'ndarray', 'strided', 'reversed']
COLL_C = ['list-ndarray', 'list-strided', '2d', '2d-F', '2d-strided', 'container', 'list-array']
COLL_PY = ['list-list', 'list-ndarray', 'list-strided', '2d', '2d-F', '2d-strided', 'container', 'list-array']


INT_KINDS = ('int-list', 'int-ndarray', 'list-intlist', 'list-intarray', '2d-int', 'list-f32array', 'list-intarr')


def make_series(vals, kind, nd=1):
    import numpy as np
    if kind == 'int-list':            # integer-valued data as Python ints / an integer array (Python engine only)
        return [int(x) for x in vals]
    if kind == 'int-ndarray':
        return np.array([int(x) for x in vals], dtype=np.int64)
    if kind == 'list':
        return [list(x) if nd > 1 else x for x in vals] if nd > 1 else list(vals)
    if kind == 'tuple':
        return tuple(vals)
    if kind == 'array':
        return array.array('d', vals)
    a = np.array(vals, dtype=np.double)
    if kind == 'ndarray':
        return a
    if kind == 'strided':
        shape = (2 * len(vals),) + a.shape[1:]
        buf = np.full(shape, 777.25)
        buf[::2] = a
        return buf[::2]
    if kind == 'reversed':
        buf = np.ascontiguousarray(a[::-1])
        return buf[::-1]
    if kind == 'F':      # n-D series stored column-major
        return np.asfortranarray(a)
    if kind == 'Tview':  # channel-first storage, handed over as a transposed view
        return np.ascontiguousarray(a.T).T
    raise ValueError(kind)


def make_coll(S, kind, nd=1):
    import numpy as np
    from dtaidistance.util import SeriesContainer
    if kind == 'list-list':
        return [list(s) for s in S]
    if kind == 'list-intlist':
        return [[int(x) for x in s] for s in S]
    if kind == 'list-intarray':
        return [np.array([int(x) for x in s], dtype=np.int64) for s in S]
    if kind == '2d-int':
        return np.array([[int(x) for x in s] for s in S], dtype=np.int64)
    if kind == 'list-f32array':      # integer-valued data: exactly representable in float32
        return [np.array([int(x) for x in s], dtype=np.float32) for s in S]
    if kind == 'list-intarr':        # array.array with an integer typecode
        return [array.array('l', [int(x) for x in s]) for s in S]
    if kind == 'list-ndarray':
        return [np.array(s, dtype=np.double) for s in S]
    if kind == 'list-strided':
        return [make_series(s, 'strided', nd) for s in S]
    if kind == 'list-array':
        return [array.array('d', s) for s in S]
    if kind == 'container':
        return SeriesContainer([np.array(s, dtype=np.double) for s in S])
    M = np.array(S, dtype=np.double)
    if kind == '2d':
        return M
    if kind == '2d-F':
        return np.asfortranarray(M)
    if kind == '2d-strided':
        buf = np.full((M.shape[0], 2 * M.shape[1]) + M.shape[2:], 777.25)
        buf[:, ::2] = M
        return buf[:, ::2]
    if kind == 'container':
        return SeriesContainer([np.array(s, dtype=np.double) for s in S])
    raise ValueError(kind)


def snapshot(obj):
    """Deep, byte-level snapshot of an input (including the buffer a view looks into)."""
    import numpy as np
    from dtaidistance.util import SeriesContainer
    if isinstance(obj, np.ndarray):
        base = obj
        while isinstance(base.base, np.ndarray):
            base = base.base
        return ('nd', obj.shape, obj.strides, obj.dtype.str, obj.flags['C_CONTIGUOUS'], obj.flags['WRITEABLE'],
                np.array(obj, copy=True).tobytes(), np.ascontiguousarray(base).tobytes(), base.shape)
    if isinstance(obj, array.array):
        return ('arr', obj.typecode, obj.tobytes())
    if isinstance(obj, SeriesContainer):
        return ('sc', snapshot(obj.series))
    if isinstance(obj, (list, tuple)):
        return (type(obj).__name__, tuple(snapshot(x) for x in obj))
    if isinstance(obj, dict):
        return ('dict', tuple(sorted((k, repr(v)) for k, v in obj.items())))
    return ('v', repr(obj))


def norm(v):
    """Normalise a result to nested tuples of floats/ints for comparison."""
    import numpy as np
    if isinstance(v, np.ndarray):
        return ('nd', v.shape, tuple(float(x) for x in np.asarray(v, dtype=float).ravel()))
    if isinstance(v, array.array):
        return ('seq', tuple(float(x) for x in v))
    if isinstance(v, (list, tuple)):
        return ('seq', tuple(norm(x) for x in v))
    if isinstance(v, dict):
        return ('dict', tuple(sorted((repr(k), norm(sorted(x) if isinstance(x, (set, frozenset)) else x))
                                     for k, x in v.items())))
    if isinstance(v, (set, frozenset)):
        return ('seq', tuple(sorted(v)))
    if isinstance(v, (int, float, np.integer, np.floating)):
        return float(v)
    return repr(v)


def same(a, b, exact):
    if isinstance(a, tuple) and isinstance(b, tuple):
        if len(a) != len(b):
            return False
        return all(same(x, y, exact) for x, y in zip(a, b))
    if isinstance(a, float) and isinstance(b, float):
        if a != a and b != b:
            return True
        return a == b if exact else ref.close(a, b)
    return a == b


# ------------------------------------------------------------------------------------------------------
# registry
# ------------------------------------------------------------------------------------------------------
def registry():
    import random
    import numpy as np
    from dtaidistance import dtw, dtw_ndim, ed, dtw_barycenter
    from dtaidistance.subsequence.subsequencealignment import subsequence_alignment
    from dtaidistance.subsequence.subsequencesearch import subsequence_search
    from dtaidistance.clustering.hierarchical import Hierarchical
    from dtaidistance.clustering.kmeans import KMeans
    R = {}

    def pair(name, eng, fn, nonumpy=None):
        R[name] = {'kind': 'pair', 'eng': eng, 'fn': fn, 'nonumpy': nonumpy}

    def coll(name, eng, fn):
        R[name] = {'kind': 'coll', 'eng': eng, 'fn': fn, 'nonumpy': None}
    W = {'window': 2, 'penalty': 0.5}
    pair('dtw.distance', 'py', lambda a, b: dtw.distance(a, b, **W), ('dtw.distance', W))
    pair('dtw.distance[psi]', 'py', lambda a, b: dtw.distance(a, b, psi=1) if min(len(a), len(b)) > 1 else dtw.distance(a, b),
         None)
    pair('dtw.distance_fast', 'c', lambda a, b: dtw.distance_fast(a, b, **W))
    pair('dtw.distance(use_c)', 'c', lambda a, b: dtw.distance(a, b, use_c=True, **W))
    pair('dtw.warping_paths', 'py', lambda a, b: dtw.warping_paths(a, b, **W))
    pair('dtw.warping_paths_fast', 'c', lambda a, b: dtw.warping_paths_fast(a, b, **W))
    pair('dtw.warping_paths_fast[compact]', 'c', lambda a, b: dtw.warping_paths_fast(a, b, compact=True, **W))
    pair('dtw.warping_path', 'py', lambda a, b: dtw.warping_path(a, b, **W))
    pair('dtw.warping_path_fast', 'c', lambda a, b: dtw.warping_path_fast(a, b, **W))
    pair('dtw.warp', 'py', lambda a, b: dtw.warp(a, b, **W))
    pair('dtw.lb_keogh', 'py', lambda a, b: dtw.lb_keogh(a, b, window=2), ('dtw.lb_keogh', {'window': 2}))
    pair('dtw.lb_keogh(use_c)', 'c', lambda a, b: dtw.lb_keogh(a, b, window=2, use_c=True))
    pair('dtw.ub_euclidean', 'py', lambda a, b: dtw.ub_euclidean(a, b), ('dtw.ub_euclidean', {}))
    pair('ed.distance', 'py', lambda a, b: ed.distance(a, b), ('ed.distance', {}))
    pair('ed.distance_fast', 'c', lambda a, b: ed.distance_fast(a, b))
    pair('dtw_ndim.distance', 'np', lambda a, b: dtw_ndim.distance(a, b, **W))
    pair('dtw_ndim.distance_fast', 'c', lambda a, b: dtw_ndim.distance_fast(a, b, **W))
    pair('dtw_ndim.warping_paths_fast', 'c', lambda a, b: dtw_ndim.warping_paths_fast(a, b, **W))
    pair('dtw_ndim.warping_path', 'np', lambda a, b: dtw_ndim.warping_path(a, b, **W))
    pair('dtw_ndim.ub_euclidean', 'np', lambda a, b: dtw_ndim.ub_euclidean(a, b))
    pair('subsequence_alignment', 'np', lambda a, b: subsequence_alignment(a, b).matching_function())
    pair('subsequence_alignment(use_c)', 'c', lambda a, b: subsequence_alignment(a, b, use_c=True).matching_function())
    coll('dtw.distance_matrix', 'py', lambda S: dtw.distance_matrix(S, **W))
    coll('dtw.distance_matrix[block]', 'py', lambda S: dtw.distance_matrix(S, block=((0, 2), (1, len(S))), compact=True, **W))
    coll('dtw.distance_matrix_fast', 'c', lambda S: dtw.distance_matrix_fast(S, parallel=False, **W))
    coll('dtw.distance_matrix(use_c,compact)', 'c', lambda S: dtw.distance_matrix(S, use_c=True, compact=True, **W))

    def first(S):
        from dtaidistance.util import SeriesContainer
        return np.array(SeriesContainer.wrap(S)[0], dtype=np.double)
    coll('dba', 'np', lambda S: dtw_barycenter.dba(S, first(S), use_c=False))
    coll('dba(use_c)', 'c', lambda S: dtw_barycenter.dba(S, first(S), use_c=True))
    coll('dba[c as given]', 'np', lambda S: dtw_barycenter.dba(S, S[0], use_c=False))
    coll('dba_loop[c as given]', 'np', lambda S: dtw_barycenter.dba_loop(S, c=S[0], max_it=2, use_c=False))
    coll('dba_loop', 'np', lambda S: dtw_barycenter.dba_loop(S, c=first(S), max_it=2, use_c=False))
    coll('dba_loop(use_c)', 'c', lambda S: dtw_barycenter.dba_loop(S, c=first(S), max_it=2, use_c=True))
    def asf(a):
        # the average comes back in the type of the initial average (array.array / ndarray): compare the numbers
        return np.asarray(a, dtype=float)
    # the loop without a convergence threshold / without an initial average (the routine starts from a series of the
    # caller); the initial average handed over as it is (it may be a contiguous float64 array the C step could write to)
    coll('dba_loop[c as given,thr=None](use_c)', 'c',
         lambda S: asf(dtw_barycenter.dba_loop(S, c=S[0], max_it=2, thr=None, use_c=True)))
    coll('dba_loop[c=None,thr=None](use_c)', 'c',
         lambda S: asf(dtw_barycenter.dba_loop(S, c=None, max_it=3, thr=None, use_c=True)))
    coll('dba_loop[c=None,keep](use_c)', 'c',
         lambda S: (lambda r: (asf(r[0]), [asf(a) for a in r[1]]))(
             dtw_barycenter.dba_loop(S, c=None, max_it=2, keep_averages=True, use_c=True)))
    coll('dba_loop[c=None,thr=None]', 'np',
         lambda S: asf(dtw_barycenter.dba_loop(S, c=None, max_it=3, thr=None, use_c=False)))

    def search(S, use_c):
        from dtaidistance.util import SeriesContainer
        L = [np.array(x, dtype=np.double) if not isinstance(x, (np.ndarray, array.array)) else x
             for x in SeriesContainer.wrap(S)]
        ss = subsequence_search(L[0], L[1:], dists_options={'window': 2}, use_c=use_c)
        return [(float(m.distance), int(m.idx)) for m in ss.kbest_matches(k=2)]
    coll('subsequence_search', 'np', lambda S: search(S, False))
    coll('subsequence_search(use_c)', 'c', lambda S: search(S, True))

    def hier(S):
        m = Hierarchical(dtw.distance_matrix, {}, show_progress=False)
        return m.fit(S)
    coll('Hierarchical.fit', 'np', hier)

    def kmeans(S, use_c):
        np.random.seed(7)
        random.seed(7)
        m = KMeans(k=2, max_it=2, max_dba_it=2, dists_options={'use_c': True} if use_c else {}, show_progress=False)
        cl, it = m.fit(S, use_parallel=False)
        return cl, it, [np.asarray(x, dtype=float) for x in m.means]
    coll('KMeans.fit', 'np', lambda S: kmeans(S, False))
    coll('KMeans.fit(use_c)', 'c', lambda S: kmeans(S, True))
    return R


PAIR_NAMES = ['dtw.distance', 'dtw.distance[psi]', 'dtw.distance_fast', 'dtw.distance(use_c)', 'dtw.warping_paths',
              'dtw.warping_paths_fast', 'dtw.warping_paths_fast[compact]', 'dtw.warping_path', 'dtw.warping_path_fast',
              'dtw.warp', 'dtw.lb_keogh', 'dtw.lb_keogh(use_c)', 'dtw.ub_euclidean', 'ed.distance', 'ed.distance_fast',
              'subsequence_alignment', 'subsequence_alignment(use_c)', 'dtw_ndim.distance', 'dtw_ndim.distance_fast',
              'dtw_ndim.warping_paths_fast', 'dtw_ndim.warping_path', 'dtw_ndim.ub_euclidean']
NDIM_NAMES = ['dtw_ndim.distance', 'dtw_ndim.distance_fast', 'dtw_ndim.warping_paths_fast', 'dtw_ndim.warping_path',
              'dtw_ndim.ub_euclidean']
SERIES_ND = ['ndarray', 'F', 'strided', 'reversed', 'Tview', 'ndarray']
COLL_NAMES = ['dtw.distance_matrix', 'dtw.distance_matrix[block]', 'dtw.distance_matrix_fast',
              'dtw.distance_matrix(use_c,compact)', 'dba', 'dba(use_c)', 'dba_loop', 'dba_loop(use_c)', 'dba[c as given]',
              'dba_loop[c as given]', 'dba_loop[c as given,thr=None](use_c)', 'dba_loop[c=None,thr=None](use_c)',
              'dba_loop[c=None,keep](use_c)', 'dba_loop[c=None,thr=None]', 'subsequence_search',
              'subsequence_search(use_c)', 'Hierarchical.fit', 'KMeans.fit', 'KMeans.fit(use_c)']
_ENG = None


def _eng(name):
    global _ENG
    if _ENG is None:
        _ENG = {k: v['eng'] for k, v in registry().items()}
    return _ENG[name]


@st.composite
def _case_call(draw):
    name = draw(st.sampled_from(PAIR_NAMES + COLL_NAMES))
    regime = draw(st.sampled_from(['L', 'L', 'F', 'I']))
    integer = regime == 'I'
    if integer:
        regime = 'L'
    case = {'routine': name}
    if name in NDIM_NAMES:
        nd = draw(st.integers(2, 3))
        case['nd'] = nd
        case['s1'] = draw(gen.series(2, 7, regime, nd))
        case['s2'] = draw(gen.series(2, 7, regime, nd))
        case['c1'] = draw(st.sampled_from(SERIES_ND))
        case['c2'] = draw(st.sampled_from(SERIES_ND))
        return case
    if name in PAIR_NAMES:
        case['s1'] = draw(gen.series(1, 8, regime, 1))
        case['s2'] = draw(gen.series(1, 8, regime, 1))
        c = name.endswith(('_fast', '(use_c)', '[compact]')) or name in ('dtw.warping_paths_fast[compact]',)
        kinds = SERIES_C if c else (SERIES_PY if 'subsequence' not in name and name != 'dtw.warping_paths'
                                     and name != 'dtw.warping_path' and name != 'dtw.warp' else
                                     ['list', 'ndarray', 'strided', 'reversed', 'array', 'tuple'])
        if integer and not c:
            case['s1'] = [float(round(x)) for x in case['s1']]
            case['s2'] = [float(round(x)) for x in case['s2']]
            kinds = kinds + ['int-list', 'int-ndarray', 'int-list']
        case['c1'] = draw(st.sampled_from(kinds))
        case['c2'] = draw(st.sampled_from(kinds))
    else:
        n = draw(st.integers(3, 6))
        L = draw(st.integers(2, 6))
        eq = draw(st.booleans())
        case['series'] = [draw(gen.series(L if eq else 2, L if eq else 6, regime, 1)) for _ in range(n)]
        c = name.endswith(('_fast', '(use_c)', '(use_c,compact)'))
        kinds = [k for k in (COLL_C if c else COLL_PY)]
        if integer and not c:
            case['series'] = [[float(round(x)) for x in s] for s in case['series']]
            kinds = kinds + ['list-intlist', 'list-intarray', '2d-int', 'list-intlist']
        if integer and name in ('dtw.distance_matrix_fast', 'dtw.distance_matrix(use_c,compact)', 'dba_loop(use_c)'):
            # the C collection routines accept a list of buffers: the element type of a buffer is a representation,
            # not content (a 2-D integer array is rejected with a dtype error, which is a clean rejection: not generated)
            case['series'] = [[float(round(x)) for x in s] for s in case['series']]
            kinds = kinds + ['list-intarray', 'list-f32array', 'list-intarr']
        if len({len(s) for s in case['series']}) != 1:
            kinds = [k for k in kinds if not k.startswith('2d')]
        case['cont'] = draw(st.sampled_from(kinds))
    return case


def _args(case, canonical):
    name = case['routine']
    eng = _eng(name)
    if name in PAIR_NAMES:
        nd = case.get('nd', 1)
        if canonical:
            k = 'ndarray' if eng in ('c', 'np') else 'list'
            return [make_series(case['s1'], k, nd), make_series(case['s2'], k, nd)]
        return [make_series(case['s1'], case['c1'], nd), make_series(case['s2'], case['c2'], nd)]
    if canonical:
        return [make_coll(case['series'], 'list-ndarray' if eng in ('c', 'np') else 'list-list')]
    return [make_coll(case['series'], case['cont'])]


def run_call(case):
    res = Res()
    R = registry()
    name = case['routine']
    ent = R[name]
    noncanon = (case.get('c1'), case.get('c2'), case.get('cont'))
    res.cls('routine=' + name, 'eng=' + ent['eng'])
    res.nontrivial = any(k in ('strided', 'reversed', 'array', 'tuple', '2d-F', 'F', 'Tview', '2d-strided', 'container', 'list-strided',
                               'list-array', '2d') + INT_KINDS for k in noncanon if k)
    canon_args = _args(case, True)
    expv, exc0 = libcall(ent['fn'], *canon_args)
    if exc0:
        res.count('canonical_call_raised')   # the routine's own defect classes belong to other properties
        return res
    exp = norm(expv)
    args = _args(case, False)
    snaps = [snapshot(a) for a in args]
    got, exc = libcall(ent['fn'], *args)
    tag = name + ':' + '/'.join(str(k) for k in noncanon if k)
    if exc:
        res.fail('container-rejected:%s:%s' % (name, exc), 'raised for containers %r although the canonical call works'
                 % (noncanon,))
        return res
    if [snapshot(a) for a in args] != snaps:
        res.fail('input-modified:' + name, 'an input was modified by the call (containers %r)' % (noncanon,))
    g = norm(got)
    if not same(g, exp, exact=False):
        res.fail('container-dependent:' + name, 'result differs from the canonical-container result (containers %r): %r vs %r'
                 % (noncanon, str(g)[:120], str(exp)[:120]))
    got2, exc = libcall(ent['fn'], *args)
    if exc:
        res.fail('repeat-raised:' + name + ':' + exc, 'second identical call raised')
    elif not same(norm(got2), g, exact=True):
        res.fail('repeat-differs:' + name, 'second identical call returned a different result')
    if [snapshot(a) for a in args] != snaps:
        res.fail('input-modified:' + name, 'an input was modified by the repeated call (containers %r)' % (noncanon,))
    # NumPy-free interpreter
    if ent['nonumpy'] and case.get('c1') in ('list', 'tuple', 'array') and case.get('c2') in ('list', 'tuple', 'array'):
        from .. import childclient
        fn, kw = ent['nonumpy']
        ch = childclient.get(nonumpy=True)
        conts = {str(i): case[k] for i, k in enumerate(('c1', 'c2')) if case[k] in ('array', 'tuple')}
        rep = ch.call(fn, [case['s1'], case['s2']], dict(kw), conts)
        if 'exc' in rep:
            res.fail('nonumpy:%s:%s' % (name, rep['exc']), 'raised without NumPy')
        elif not same(norm(rep['ok']), exp, exact=False):
            res.fail('nonumpy-differs:' + name, 'without NumPy %r, with NumPy %r' % (rep['ok'], expv))
    return res


# ------------------------------------------------------------------------------------------------------
# histories: shared series, settings dicts and model objects
# ------------------------------------------------------------------------------------------------------
HIST_OPS = ['dist', 'dist_c', 'wps', 'matrix', 'matrix_c', 'dba_c', 'dba_loop_c', 'search', 'hier', 'hier_tree', 'kmeans', 'sa',
            'lbk', 'search_reuse', 'lc', 'lc_c']


@st.composite
def _case_hist(draw):
    n = draw(st.integers(3, 5))
    L = draw(st.integers(2, 6))
    regime = draw(st.sampled_from(['L', 'F']))
    # a history concentrates on one to three kinds of operation and on few series, so that the same model object /
    # the same pair is revisited several times within one history (a uniform draw over 14 kinds x 5 x 5 arguments
    # almost never calls the same stateful object twice)
    kinds = draw(st.lists(st.sampled_from(HIST_OPS), min_size=1, max_size=3, unique=True))
    imax = draw(st.sampled_from([0, 1, 4]))
    return {'series': [draw(gen.series(L, L, regime, 1)) for _ in range(n)],
            'cont': draw(st.sampled_from(['list-ndarray', '2d', '2d-strided', 'list-strided', '2d-F', 'container'])),
            'opts': draw(st.sampled_from([{}, {'window': 2}, {'window': 2, 'penalty': 0.5}])),
            'ops': draw(st.lists(st.tuples(st.sampled_from(kinds), st.integers(0, imax), st.integers(0, 4)), min_size=2,
                                 max_size=7).map(lambda l: [list(x) for x in l]))}


def _hist_apply(op, coll, opts, models, n):
    """Run one operation on the given (shared or fresh) objects."""
    import random
    import numpy as np
    from dtaidistance import dtw, dtw_barycenter
    from dtaidistance.util import SeriesContainer
    from dtaidistance.subsequence.subsequencealignment import subsequence_alignment
    from dtaidistance.subsequence.subsequencesearch import SubsequenceSearch
    from dtaidistance.clustering.hierarchical import Hierarchical, HierarchicalTree
    from dtaidistance.clustering.kmeans import KMeans
    kind, i, j = op
    i, j = i % n, j % n
    sc = SeriesContainer.wrap(coll)
    a, b = sc[i], sc[j]
    if kind == 'dist':
        return dtw.distance(a, b, **opts)
    if kind == 'dist_c':
        return dtw.distance_fast(a, b, **opts)
    if kind == 'wps':
        return dtw.warping_paths(a, b, **opts)
    if kind == 'lbk':
        return dtw.lb_keogh(a, b, use_c=True, **{k: v for k, v in opts.items() if k == 'window'})
    if kind == 'matrix':
        return dtw.distance_matrix(coll, **opts)
    if kind == 'matrix_c':
        return dtw.distance_matrix_fast(coll, parallel=False, **{k: v for k, v in opts.items()
                                                                  if k in ('window', 'penalty', 'max_dist', 'only_triu')})
    if kind == 'dba_c':
        c0 = np.array(a, dtype=np.double)
        return dtw_barycenter.dba(coll, c0, use_c=True, **{k: v for k, v in opts.items() if k in ('window', 'penalty')})
    if kind == 'dba_loop_c':
        c0 = np.array(a, dtype=np.double)
        return dtw_barycenter.dba_loop(coll, c=c0, max_it=2, use_c=True,
                                       **{k: v for k, v in opts.items() if k in ('window', 'penalty')})
    if kind == 'sa':
        return subsequence_alignment(a, b).matching_function()
    if kind == 'search':
        ss = SubsequenceSearch(a, [sc[k] for k in range(n)], dists_options=opts, max_dist=1000.0)
        return [(float(m.distance), int(m.idx)) for m in ss.kbest_matches(k=2)]
    if kind == 'search_reuse':
        key = 'ss%d' % i
        if key not in models:
            models[key] = SubsequenceSearch(a, [sc[k] for k in range(n)], dists_options=dict(opts))
        # the same object answers a sequence of differently limited requests: best match, k = 1..3, all (k=None)
        if j % 5 == 0:
            m = models[key].best_match()
            return [(float(m.distance), int(m.idx))]
        k = None if j % 5 == 4 else j % 5
        return [(float(m.distance), int(m.idx)) for m in models[key].kbest_matches(k=k)]
    if kind in ('lc', 'lc_c'):
        # one local-concurrence object per pair, searched again and again (every search restarts from the full matrix)
        import itertools
        from dtaidistance.subsequence.localconcurrences import LocalConcurrences
        key = '%s-%d-%d' % (kind, i, j)
        if key not in models:
            models[key] = LocalConcurrences(a, b, gamma=0.5, tau=0.3, delta=-0.5, delta_factor=0.5, window=opts.get('window'),
                                            use_c=(kind == 'lc_c'))
            models[key].align()
        it = models[key].kbest_matches(k=2, minlen=1, buffer=0, restart=True)
        return [(int(m.row), int(m.col), [(int(x), int(y)) for x, y in m.path]) for m in itertools.islice(it, 4)]
    if kind == 'hier':
        if 'hier' not in models:
            models['hier'] = Hierarchical(dtw.distance_matrix, opts, show_progress=False)
        return models['hier'].fit(coll)
    if kind == 'hier_tree':
        if 'tree' not in models:
            models['tree'] = HierarchicalTree(Hierarchical(dtw.distance_matrix_fast, opts, show_progress=False))
        cl = models['tree'].fit(coll)
        return cl, [tuple(float(x) for x in r) for r in models['tree'].linkage]
    if kind == 'kmeans':
        np.random.seed(11)
        random.seed(11)
        if 'km' not in models:
            models['km'] = KMeans(k=2, max_it=2, max_dba_it=2, dists_options=opts, show_progress=False)
        cl, it = models['km'].fit(coll, use_parallel=False)
        return cl, it, [np.asarray(x, dtype=float) for x in models['km'].means]
    raise ValueError(kind)


def run_hist(case):
    res = Res()
    n = len(case['series'])
    res.cls('cont=' + case['cont'])
    shared_coll = make_coll(case['series'], case['cont'])
    shared_opts = dict(case['opts'])
    shared_models = {}
    snap0 = snapshot(shared_coll)
    for k, op in enumerate(case['ops']):
        fresh_coll = make_coll(case['series'], 'list-ndarray')
        exp, exc0 = libcall(_hist_apply, op, fresh_coll, dict(case['opts']), {}, n)
        if op[0] == 'search_reuse':
            # a fresh search object answers this k directly
            pass
        got, exc = libcall(_hist_apply, op, shared_coll, shared_opts, shared_models, n)
        if exc0:
            res.count('fresh_call_raised')
            continue
        if exc:
            res.fail('hist:raised:%s:%s' % (op[0], exc), 'operation %d %r raised on the shared objects after %r, not on fresh ones'
                     % (k, op, case['ops'][:k]))
            continue
        g_, e_ = norm(got), norm(exp)
        if op[0] in ('search', 'search_reuse'):
            # indices are only fixed up to ties (C14): compare the distance sequences
            g_ = norm([d for d, i in got])
            e_ = norm([d for d, i in exp])
        if not same(g_, e_, exact=False):
            res.fail('hist:differs:' + op[0], 'operation %d %r after %r: shared objects give %s, fresh copies give %s'
                     % (k, op, [o[0] for o in case['ops'][:k]], str(norm(got))[:100], str(norm(exp))[:100]))
        if snapshot(shared_coll) != snap0:
            res.fail('hist:input-modified:' + op[0], 'the shared series were modified by operation %d %r' % (k, op))
            snap0 = snapshot(shared_coll)
        if shared_opts != case['opts']:
            res.fail('hist:options-modified:' + op[0], 'the shared options dict %r became %r in operation %d %r'
                     % (case['opts'], shared_opts, k, op))
            shared_opts = dict(case['opts'])
    res.nontrivial = len(case['ops']) >= 2
    seen = set()
    for op in case['ops']:
        key = (op[0], op[1] % n) if op[0] == 'search_reuse' else op[0]
        if op[0] in ('lc', 'lc_c'):
            key = (op[0], op[1] % n, op[2] % n)
        if key in seen and op[0] in ('search_reuse', 'hier', 'hier_tree', 'kmeans', 'lc', 'lc_c'):
            res.cls('model-object-reused')
            break
        seen.add(key)
    return res


# ------------------------------------------------------------------------------------------------------
# the initial average of dba / dba_loop is an input series like any other
# ------------------------------------------------------------------------------------------------------
@st.composite
def _case_avg(draw):
    nd = draw(st.sampled_from([1, 1, 2]))
    n = draw(st.integers(2, 5))
    L = draw(st.integers(2, 6))
    regime = draw(st.sampled_from(['L', 'F']))
    kinds = ['strided', 'reversed', 'ndarray'] + (['array', 'list'] if nd == 1 else ['F', 'Tview'])
    return {'series': [draw(gen.series(L, L, regime, nd)) for _ in range(n)], 'c': draw(gen.series(2, 6, regime, nd)),
            'nd': nd, 'ckind': draw(st.sampled_from(kinds)), 'use_c': draw(st.booleans()),
            'routine': draw(st.sampled_from(['dba', 'dba_loop'])), 'matrix': draw(st.booleans())}


def run_avg(case):
    import numpy as np
    from dtaidistance import dtw_barycenter
    res = Res()
    nd = case['nd']
    res.cls('ckind=' + case['ckind'], 'use_c' if case['use_c'] else 'python', case['routine'], 'nd=%d' % nd)
    S = np.array(case['series'], dtype=np.double)
    if not case['matrix']:
        S = [np.array(s, dtype=np.double) for s in case['series']]
    if case['use_c'] and (case['ckind'] == 'list' or (case['ckind'] == 'array' and case['routine'] == 'dba')):
        case = dict(case, ckind='strided')      # the C routines take buffers (dba_loop also array.array): lists are rejected
    c = make_series(case['c'], case['ckind'], nd)
    canon = np.array(case['c'], dtype=np.double)

    def call(avg):
        if case['routine'] == 'dba':
            return dtw_barycenter.dba(S, avg, use_c=case['use_c'])
        return dtw_barycenter.dba_loop(S, c=avg, max_it=2, thr=0.0, use_c=case['use_c'])
    exp, exc0 = libcall(call, canon)
    if exc0:
        res.count('canonical_call_raised')
        return res
    snap = snapshot(c)
    got, exc = libcall(call, c)
    tag = '%s(%s)' % (case['routine'], 'use_c' if case['use_c'] else 'py')
    if exc:
        res.fail('average-rejected:%s:%s' % (tag, exc), 'raised for an initial average given as %s' % case['ckind'])
        return res
    if snapshot(c) != snap:
        res.fail('average-modified:' + tag, 'the initial average (%s) was modified' % case['ckind'])
    g = np.asarray(got, dtype=float)
    e = np.asarray(exp, dtype=float)
    if g.shape != e.shape or not all(ref.close(float(x), float(y)) for x, y in zip(g.ravel(), e.ravel())):
        res.fail('average-layout:' + tag, 'initial average given as %s: %r, as a contiguous float64 array: %r'
                 % (case['ckind'], g.tolist(), e.tolist()))
    res.nontrivial = case['ckind'] != 'ndarray'
    return res


def legs(tier):
    return [Leg('call', _case_call(), run_call, 10000, 100000, max_shrink_buckets=10),
            Leg('history', _case_hist(), run_hist, 2000, 16000, max_shrink_buckets=8),
            Leg('average-layout', _case_avg(), run_avg, 1500, 12000, max_shrink_buckets=6)]


REGIONS = {}
