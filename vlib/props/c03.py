# -*- coding: utf-8 -*-
"""C03 — early abandoning (max_dist, use_pruning) never changes a result (DESIGN.md §3 C03)."""
from hypothesis import strategies as st

from .. import gen, ref
from ..runner import Leg, Res, libcall

PROPERTY = 'C03'
NEED_C = True
RULE = ('Three series per case (single-pair routines use the first two) x window/psi/penalty/inner distance/ndim. '
        'max_dist leg: thresholds are constructed from the reference distances: factors {0.5,0.9,1-1e-6} (expect inf) '
        'and {1+1e-6,1.1,2,10} (expect exactly the unbounded value) of a pair distance, or a midpoint between two '
        'pair distances (matrix routines: some entries kept, some abandoned); the distance itself is never used as '
        'threshold. use_pruning leg: only configurations where ED is a valid upper bound (no max_step; penalty off '
        'or equal lengths), heavily weighted towards inputs where DTW equals ED (window=1 on equal lengths, identical '
        'or offset series, trailing equal elements). Every routine (Python/C distance, warping_paths full/compact, '
        'distance matrices, n-D variants) is called with and without the option and the metamorphic relation the '
        'property states is checked; the unbounded value is cross-checked against the reference. Non-trivial: the '
        'threshold (max_dist, or the Euclidean bound) is below the largest accumulated cost in the reference table '
        'of some pair, i.e. abandoning has something to cut; for the Python engine the number of inner-distance '
        'evaluations saved is also counted with a counting inner-distance object.'
        ' One case in 10 also runs the multiprocessing engines of the matrix routine (Python and C single-pair routine under a pool of 2, separate interpreter) under the same thresholds.')
ASSUMPTIONS = ['thresholds within 1e-6 relative of the true distance are outside the property',
               'lengths <= 12, |values| <= 1e3, ndim <= 2',
               'use_pruning and max_dist are not combined']


class CountingSq:
    """Squared-euclidean inner distance that counts its evaluations (user-supplied inner-distance object)."""
    n = 0

    @staticmethod
    def inner_dist(x, y):
        CountingSq.n += 1
        return (x - y) ** 2

    @staticmethod
    def result(x):
        import math
        if hasattr(x, 'shape'):
            import numpy as np
            return np.sqrt(x)
        return math.sqrt(x)

    @staticmethod
    def inner_val(x):
        return x * x


@st.composite
def _triple(draw, max_len, ndim, eq_bias):
    """Three series; eq_bias favours DTW == ED situations."""
    s1, s2, regime = draw(gen.series_pair(max_len=max_len, ndim=ndim))
    if eq_bias:
        k = draw(st.sampled_from(['asis', 'eqlen', 'eqlen', 'tail', 'offset', 'identical']))
        if k in ('eqlen', 'tail', 'offset', 'identical'):
            n = min(len(s1), len(s2))
            s1, s2 = s1[:n], s2[:n]
        if k == 'tail' and len(s1) >= 2:
            t = draw(st.integers(1, len(s1) - 1))
            s2 = s2[:len(s2) - t] + [x[:] if ndim > 1 else x for x in s1[len(s1) - t:]]
        if k == 'identical':
            s2 = [x[:] if ndim > 1 else x for x in s1]
        if k == 'offset':
            off = draw(st.sampled_from([0.25, 0.5, 1.0, 3.0]))
            s2 = [[y + off for y in x] if ndim > 1 else x + off for x in s1]
    base = 'L' if all(float(v * 4).is_integer() for x in (s1 + s2) for v in (x if isinstance(x, list) else [x])) \
        else 'F'
    l3 = draw(st.integers(1, max_len)) if not eq_bias or draw(st.booleans()) else len(s1)
    s3 = draw(gen.series(l3, l3, base, ndim))
    return s1, s2, s3, regime, base


@st.composite
def _case(draw, max_len, leg):
    ndim = draw(st.sampled_from([1, 1, 1, 2]))
    s1, s2, s3, regime, base = draw(_triple(max_len, ndim, eq_bias=(leg == 'pruning')))
    lens = [len(s1), len(s2), len(s3)]
    case = {'s1': s1, 's2': s2, 's3': s3, 'ndim': ndim, 'regime': regime, 'leg': leg}
    if leg == 'pruning' and draw(st.integers(0, 2)) == 0:
        case['window'] = 1
    else:
        case['window'] = draw(gen.window_strategy(max(lens), min(lens)))
    case['inner'] = draw(st.sampled_from(gen.INNER_NAMES))
    psi, nrep = draw(gen.psi_strategy(min(lens), min(lens), ('none', 'none', 'zero', 'int', 'tuple')))
    case['psi'] = psi
    case['penalty'] = draw(gen.penalty_strategy(base))
    if leg == 'pruning':
        if len(set(lens)) > 1:
            case['penalty'] = None
        case['max_step'] = None
        case['max_dist'] = None
        return case
    case['max_step'] = draw(gen.max_step_strategy(s1, s2, base)) if draw(st.integers(0, 3)) == 0 else None
    kw = dict(window=case['window'], penalty=case['penalty'], psi=gen.psi4(psi), max_step=case['max_step'],
              inner=case['inner'])
    ds = [ref.ref_dtw(a, b, **kw) for a, b in ((s1, s2), (s1, s3), (s2, s3))]
    case['ref'] = [None if d == ref.inf else d for d in ds]
    fin = sorted(set(d for d in ds if d != ref.inf))
    kind = draw(st.sampled_from(['factor', 'factor', 'mid', 'big']))
    m = None
    if kind == 'factor' and any(d > 1e-9 for d in fin):
        d = draw(st.sampled_from([d for d in fin if d > 1e-9]))
        m = d * draw(st.sampled_from([0.5, 0.9, 1 - 1e-6, 1 + 1e-6, 1.1, 2.0, 10.0]))
    elif kind == 'mid':
        m = draw(gen.threshold_between(fin, exact_ok=False, allow_none=False))
    if m is None:
        m = draw(st.sampled_from([0.5, 1.0, 10.0, 1000.0]))
    # never within 1e-6 relative of a true distance (outside the property)
    for d in fin:
        if abs(m - d) < 0.9e-6 * max(abs(d), 1e-300) or m == d:
            m = m * 1.5 + 0.1
    if any(abs(m - d) < 0.9e-6 * max(abs(d), 1e-300) for d in fin):
        m = max(fin) * 2 + 1
    case['max_dist'] = m
    case['mp'] = draw(st.integers(0, 9)) == 0
    return case


def _routines(case):
    import numpy as np
    from dtaidistance import dtw, dtw_ndim
    nd = case['ndim']
    S = [case['s1'], case['s2'], case['s3']]
    A = [np.array(s, dtype=np.double) for s in S]
    P = [list(s) for s in S] if nd == 1 else A
    base = {'window': case['window'], 'penalty': case['penalty'], 'psi': gen.psi_to_lib(case['psi']),
            'max_step': case['max_step'], 'inner_dist': case['inner']}
    R = []
    if nd == 1:
        R.append(('py.distance', lambda **k: [dtw.distance(P[0], P[1], **base, **k)]))
        R.append(('c.distance_fast', lambda **k: [dtw.distance_fast(A[0], A[1], **base, **k)]))
        R.append(('py.warping_paths', lambda **k: [dtw.warping_paths(P[0], P[1], **base, **k)[0]]))
        R.append(('c.warping_paths_fast', lambda **k: [dtw.warping_paths_fast(A[0], A[1], **base, **k)[0]]))
        R.append(('c.warping_paths_fast.compact',
                  lambda **k: [dtw.warping_paths_fast(A[0], A[1], compact=True, **base, **k)[0]]))
        R.append(('py.distance_matrix', lambda **k: list(dtw.distance_matrix(P, compact=True, **base, **k))))
        R.append(('c.distance_matrix_fast', lambda **k: list(dtw.distance_matrix_fast(
            A, compact=True, parallel=False, **base, **k))))
    else:
        R.append(('py.ndim.distance', lambda **k: [dtw_ndim.distance(A[0], A[1], **base, **k)]))
        R.append(('c.ndim.distance_fast', lambda **k: [dtw_ndim.distance_fast(A[0], A[1], **base, **k)]))
        R.append(('py.ndim.warping_paths', lambda **k: [dtw_ndim.warping_paths(A[0], A[1], **base, **k)[0]]))
        R.append(('c.ndim.warping_paths_fast', lambda **k: [dtw_ndim.warping_paths_fast(A[0], A[1], **base, **k)[0]]))
        R.append(('c.ndim.warping_paths_fast.compact',
                  lambda **k: [dtw_ndim.warping_paths_fast(A[0], A[1], compact=True, **base, **k)[0]]))
        R.append(('py.ndim.distance_matrix', lambda **k: list(dtw_ndim.distance_matrix(
            A, ndim=nd, compact=True, **base, **k))))
        R.append(('c.ndim.distance_matrix', lambda **k: list(dtw_ndim.distance_matrix(
            A, ndim=nd, compact=True, use_c=True, parallel=False, **base, **k))))
    if case.get('mp'):
        # the multiprocessing routes of the distance-matrix routine (what the C engine falls back to without OpenMP), in a
        # separate interpreter with a pool of 2
        for use_c in (False, True):
            R.append((('c' if use_c else 'py') + ('.ndim' if nd > 1 else '') + '.distance_matrix[mp]', _mp_route(case, use_c)))
    return R


def _mp_route(case, use_c):
    def fn(**k):
        from .. import childclient
        ch = childclient.get(nonumpy=False, key='c03-mp', env_extra={'OMP_WAIT_POLICY': 'passive'})
        nd = case['ndim']
        kw = {'compact': True, 'parallel': True, 'use_c': use_c, 'use_mp': True, 'window': case['window'],
              'penalty': case['penalty'], 'psi': case['psi'], 'max_step': case['max_step'], 'inner_dist': case['inner']}
        if nd > 1:
            kw['ndim'] = nd
        kw.update(k)
        r = ch.call('dtw.distance_matrix' if nd == 1 else 'dtw_ndim.distance_matrix',
                    [[case['s1'], case['s2'], case['s3']]], kw, {'0': 'list-ndarray'}, cpu_count=2)
        if 'exc' in r:
            raise RuntimeError(r['exc'])
        return [float(v) for v in r['ok']]
    return fn


def _pairs(case):
    return ((case['s1'], case['s2']), (case['s1'], case['s3']), (case['s2'], case['s3']))


def _refkw(case):
    return dict(window=case['window'], penalty=case['penalty'], psi=gen.psi4(case['psi']),
                max_step=case['max_step'], inner=case['inner'])


def run_maxdist(case):
    res = Res()
    m = case['max_dist']
    kw = _refkw(case)
    refs = [ref.ref_dtw(a, b, **kw) for a, b in _pairs(case)]
    res.cls('ndim=%d' % case['ndim'], 'inner=' + case['inner'])
    # non-trivial: some reference cell beyond the threshold
    ival = ref.INNER[case['inner']][2]
    cut = False
    for a, b in _pairs(case)[:1]:
        cells = ref.ref_cells(a, b, **kw)
        if cells and max(cells.values()) > ival(m):
            cut = True
    res.nontrivial = cut and len(case['s1']) >= 2 and len(case['s2']) >= 2
    if refs[0] != ref.inf:
        res.cls('kept' if refs[0] < m else 'abandoned')
    lens = {len(case['s1']), len(case['s2']), len(case['s3'])}
    pr_ok = case['max_step'] is None and (not case['penalty'] or len(lens) == 1)
    if pr_ok:
        res.cls('also-with-pruning')
    for name, fn in _routines(case):
        nvals = 1 if 'matrix' not in name else 3
        base, exc = libcall(fn)
        if exc:
            res.count('base_raised')
            continue
        if len(base) != nvals or not all(ref.close(b, r) for b, r in zip(base, refs)):
            res.count('base_differs_from_reference')   # C01/C02/C04/C06's business, not C03's
            continue
        got, exc = libcall(fn, max_dist=m)
        res.count('routine_calls')
        if exc:
            res.fail('max_dist:%s:%s' % (name, exc), 'raised with max_dist=%r; unbounded=%r' % (m, base))
            continue
        for k, (g, b) in enumerate(zip(got, base)):
            exp = b if b < m else ref.inf
            ok = (g == exp) or (g != g and exp != exp)
            if not ok:
                res.fail('max_dist:%s:%s' % (name, 'lost' if exp != ref.inf else 'not-abandoned'),
                         '%s with max_dist=%r -> %r, unbounded value %r (entry %d)' % (name, m, g, b, k))
                break
        # the same threshold with pruning switched on as well (the property quantifies thresholds x pruning on/off):
        # where the Euclidean distance is a valid upper bound, the tighter of the two bounds decides and the answer is
        # the same as with the threshold alone
        if pr_ok:
            got, exc = libcall(fn, max_dist=m, use_pruning=True)
            res.count('routine_calls_with_pruning')
            if exc:
                res.fail('max_dist+pruning:%s:%s' % (name, exc), 'raised with max_dist=%r and use_pruning=True' % (m,))
                continue
            for k, (g, b) in enumerate(zip(got, base)):
                exp = b if b < m else ref.inf
                if not ((g == exp) or (g != g and exp != exp)):
                    res.fail('max_dist+pruning:%s:%s' % (name, 'lost' if exp != ref.inf else 'not-abandoned'),
                             '%s with max_dist=%r and use_pruning=True -> %r, unbounded value %r (entry %d)'
                             % (name, m, g, b, k))
                    break
    return res


def run_pruning(case):
    res = Res()
    kw = _refkw(case)
    refs = [ref.ref_dtw(a, b, **kw) for a, b in _pairs(case)]
    eds = [ref.ref_ed(a, b, case['inner']) for a, b in _pairs(case)]
    res.cls('ndim=%d' % case['ndim'], 'inner=' + case['inner'])
    if ref.close(refs[0], eds[0]):
        res.cls('DTW=ED')
    cells = ref.ref_cells(case['s1'], case['s2'], **kw)
    ed_int = ref.ref_ed_internal(case['s1'], case['s2'], case['inner'])
    res.nontrivial = bool(cells) and max(cells.values()) > ed_int and len(case['s1']) >= 2
    for name, fn in _routines(case):
        nvals = 1 if 'matrix' not in name else 3
        base, exc = libcall(fn, use_pruning=False)
        if exc:
            res.count('base_raised')
            continue
        if len(base) != nvals or not all(ref.close(b, r) for b, r in zip(base, refs)):
            res.count('base_differs_from_reference')
            continue
        got, exc = libcall(fn, use_pruning=True)
        res.count('routine_calls')
        if exc:
            res.fail('pruning:%s:%s' % (name, exc), 'raised with use_pruning=True; unpruned=%r' % (base,))
            continue
        for k, (g, b) in enumerate(zip(got, base)):
            if g != b:
                tag = 'eq-ed' if ref.close(b, eds[k if nvals == 3 else 0]) else 'below-ed'
                res.fail('pruning:%s:%s' % (name, tag),
                         '%s use_pruning=True -> %r, without pruning %r (ED=%r, entry %d)'
                         % (name, g, b, eds[k if nvals == 3 else 0], k))
                break
    # measured pruning activity in the Python engine (counting inner-distance object)
    if case['ndim'] == 1 and case['inner'] == 'squared euclidean':
        from dtaidistance import dtw
        base = {'window': case['window'], 'penalty': case['penalty'], 'psi': gen.psi_to_lib(case['psi'])}
        CountingSq.n = 0
        d0, e0 = libcall(dtw.distance, list(case['s1']), list(case['s2']), inner_dist=CountingSq, **base)
        n0 = CountingSq.n
        CountingSq.n = 0
        d1, e1 = libcall(dtw.distance, list(case['s1']), list(case['s2']), inner_dist=CountingSq,
                         use_pruning=True, **base)
        n1 = CountingSq.n - min(len(case['s1']), len(case['s2'])) - abs(len(case['s1']) - len(case['s2']))
        if e0 or e1:
            res.fail('pruning:py.distance[counting]:%s' % (e0 or e1), 'raised with a counting inner distance')
        else:
            if d0 != d1:
                res.fail('pruning:py.distance[counting]', 'use_pruning=True -> %r, without %r' % (d1, d0))
            if n1 < n0:
                res.count('py_cases_with_cells_saved')
                res.count('py_cells_saved', n0 - n1)
    return res


def legs(tier):
    ml = 7 if tier == 'quick' else 12
    a = Leg('max_dist', _case(ml, 'max_dist'), run_maxdist, 8000, 120000, max_shrink_buckets=6)
    b = Leg('pruning', _case(ml, 'pruning'), run_pruning, 8000, 120000, max_shrink_buckets=6)
    b.essential = {'DTW=ED': 0.05}
    return [a, b]


REGIONS = {}
