# -*- coding: utf-8 -*-
"""C12 — a DBA update averages optimally aligned points and never worsens the fit (DESIGN.md §3 C12)."""
from hypothesis import strategies as st

from .. import gen, ref
from ..runner import Leg, Res, libcall

PROPERTY = 'C12'
NEED_C = True
RULE = ('Collections of 1..5 series (10 in the thorough tier), one case in 6 with up to 18 (34 thorough) series: bit masks crossing one or several byte boundaries, lengths 1..6, equal/unequal, '
        'ndim 1..3, list or matrix container; initial average = own values or one of the series; mask with >= 1 selected '
        'series; window None or >= 1; penalty; engines Python dba, dba(use_c=True), dtw_cc.dba/dba_ndim, dba_loop. Oracles: '
        '(i) whenever the reference DP finds every (c, s_k) optimal path unique (exact tie counting): result = per-position '
        'arithmetic mean of the aligned points, all engines; otherwise only what holds for every choice of optimal paths: '
        '(ii) each coordinate within [min, max] of the selected series, (iii) identical selected series equal to c are a '
        'fixed point, (iv) changing / adding unselected series leaves the result bitwise unchanged, (v) the sum of squared '
        'reference DTW distances does not increase, (vi) dba_loop(max_it=m, keep_averages=True) performs <= m steps, each '
        'satisfying (v), and does not modify c. Non-trivial: >= 2 selected series, len(c) >= 2, and at least one optimal '
        'path has a non-diagonal step.'
        ' Without an initial average (c=None; dba and dba_loop, both engines) under a mask with unselected series: replacing the unselected series must not change the result.')
ASSUMPTIONS = ['default inner distance; no psi / max_step (DBA needs an admissible alignment for every series)',
               'values |x| <= 1e3']


@st.composite
def _case(draw, nmax):
    ndim = draw(st.sampled_from([1, 1, 2, 3]))
    n = draw(gen.count(1, nmax, 18 if nmax <= 5 else 34, one_in=6))
    eq = draw(st.booleans())
    L0 = draw(st.integers(1, 6))
    regime = draw(st.sampled_from(['L', 'L', 'F']))
    series = []
    for _ in range(n):
        L = L0 if eq else draw(st.integers(1, 6))
        series.append(draw(gen.series(L, L, regime, ndim)))
    mask = [draw(st.booleans()) for _ in range(n)]
    if n > 8 and draw(st.booleans()):
        # the packed mask has several bytes: leave a whole byte (series 8j..8j+7) unselected, or select only one byte
        j = draw(st.integers(0, (n - 1) // 8))
        if draw(st.booleans()):
            mask = [m and not (8 * j <= i < 8 * j + 8) for i, m in enumerate(mask)]
        else:
            mask = [m and (8 * j <= i < 8 * j + 8) for i, m in enumerate(mask)]
    if not any(mask):
        mask[draw(st.integers(0, n - 1))] = True
    if draw(st.integers(0, 4)) == 0:
        k = mask.index(True)
        for i in range(n):
            if mask[i]:
                series[i] = [x[:] if ndim > 1 else x for x in series[k]]
        c = [x[:] if ndim > 1 else x for x in series[k]]
    elif draw(st.booleans()):
        c = [x[:] if ndim > 1 else x for x in series[draw(st.integers(0, n - 1))]]
    else:
        c = draw(gen.series(1, 6, regime, ndim))
    other = draw(gen.series(1, 6, regime, ndim)) if not eq else draw(gen.series(L0, L0, regime, ndim))
    return {'series': series, 'ndim': ndim, 'mask': mask, 'c': c, 'other': other,
            'container': 'matrix' if (eq and draw(st.booleans())) else 'list',
            'window': draw(st.one_of(st.none(), st.integers(1, 7))),
            'penalty': draw(st.sampled_from([None, None, 0.5, 1.0])), 'max_it': draw(st.integers(1, 4)),
            # pruning must not change any alignment; drawn only where the Euclidean distance is a valid bound (no penalty)
            'use_pruning': draw(st.integers(0, 3)) == 0}


def _cont(case, S):
    import numpy as np
    if case['container'] == 'matrix' and len({len(s) for s in S}) == 1:
        return np.array(S, dtype=np.double)
    return [np.array(s, dtype=np.double) for s in S]


def _aslist(v, ndim):
    import numpy as np
    a = np.asarray(v, dtype=float)
    return [float(x) for x in a] if ndim == 1 else [[float(y) for y in x] for x in a]


def _sumsq(avg, S, mask, kw):
    t = 0.0
    for s, m in zip(S, mask):
        if m:
            t += ref.ref_dtw_internal(avg, s, **kw)
    return t


def run(case):
    import numpy as np
    from dtaidistance import dtw_barycenter, dtw_cc
    res = Res()
    S, nd, mask, c = case['series'], case['ndim'], case['mask'], case['c']
    n = len(S)
    t = len(c)
    sel = [s for s, m in zip(S, mask) if m]
    kw = {'window': case['window'], 'penalty': case['penalty']}
    rkw = dict(kw)
    if case.get('use_pruning') and not case['penalty']:
        kw['use_pruning'] = True
        res.cls('use_pruning')
    res.cls('ndim=%d' % nd, 'container=' + case['container'], 'unselected-present' if not all(mask) else 'all-selected',
            'n>8' if n > 8 else 'n<=8')
    # reference: unique optimal paths -> defining equation
    paths = []
    unique = True
    nondiag = False
    for s in sel:
        cost, p = ref.ref_unique_path(c, s, **rkw)
        if len(s) != t:
            nondiag = True
        if p is None:
            unique = False
        else:
            paths.append((s, p))
            nondiag = nondiag or any((b[0] - a[0], b[1] - a[1]) != (1, 1) for a, b in zip(p, p[1:]))
    expected = None
    if unique:
        res.cls('unique-paths')
        acc = [[] for _ in range(t)]
        for s, p in paths:
            for i, j in p:
                acc[i].append(s[j])
        if all(acc):
            if nd == 1:
                expected = [sum(v) / len(v) for v in acc]
            else:
                expected = [[sum(x[k] for x in v) / len(v) for k in range(nd)] for v in acc]
    res.nontrivial = len(sel) >= 2 and t >= 2 and nondiag
    before = ref.ref_dtw_internal  # noqa
    base_cost = _sumsq(c, S, mask, rkw)
    data = _cont(case, S)
    npmask = np.array(mask, dtype=bool)
    c_arr = np.array(c, dtype=np.double)
    c_snapshot = c_arr.copy()
    engines = [
        ('py.dba', lambda d, m: dtw_barycenter.dba(d, c_arr, mask=m, use_c=False, **kw)),
        ('c.dba(use_c)', lambda d, m: dtw_barycenter.dba(d, c_arr, mask=m, use_c=True,
                                                        **{k: (0 if v is None else v) for k, v in kw.items()})),
    ]

    def full_c(d, m):
        from dtaidistance.util import SeriesContainer
        d = SeriesContainer.wrap(d)      # as dba_loop, the only caller in the library, hands it over
        cc = c_arr.copy()
        pm = np.packbits(m, bitorder='little')
        ckw = {k: (0 if v is None else v) for k, v in kw.items()}
        if nd == 1:
            dtw_cc.dba(d, cc, mask=pm, nb_prob_samples=0, **ckw)
        else:
            dtw_cc.dba_ndim(d, cc, mask=pm, nb_prob_samples=0, ndim=nd, **ckw)
        return cc
    engines.append(('c.dtw_cc.dba', full_c))
    results = {}
    for name, fn in engines:
        got, exc = libcall(fn, data, npmask)
        if exc:
            res.fail('%s:%s' % (name, exc), 'dba raised')
            continue
        if not np.array_equal(c_arr, c_snapshot):
            res.fail(name + ':modified-c', 'the initial average was modified')
            c_arr = c_snapshot.copy()
        avg = _aslist(got, nd)
        results[name] = avg
        if len(avg) != t:
            res.fail(name + ':length', 'result length %d, average length %d' % (len(avg), t))
            continue
        flat = lambda v: v if nd == 1 else [y for x in v for y in x]   # noqa
        # (ii) range
        for k in range(nd):
            vals = [(x if nd == 1 else x[k]) for s in sel for x in s]
            lo, hi = min(vals), max(vals)
            for x in avg:
                v = x if nd == 1 else x[k]
                if not (lo - 1e-9 * max(1, abs(lo)) <= v <= hi + 1e-9 * max(1, abs(hi))):
                    res.fail(name + ':range', 'coordinate %r outside [%r, %r] of the selected series' % (v, lo, hi))
                    break
        # (i) defining equation
        if expected is not None and not all(ref.close(a, b) for a, b in zip(flat(avg), flat(expected))):
            res.fail(name + ':mean', 'result %r, mean of optimally aligned points %r' % (avg, expected))
        # (iii) fixed point
        if all(s == c for s in sel) and not all(ref.close(a, b) for a, b in zip(flat(avg), flat(c))):
            res.fail(name + ':fixed-point', 'identical selected series equal to c, result %r != c %r' % (avg, c))
        # (v) fit does not get worse
        new_cost = _sumsq(avg, S, mask, rkw)
        if not ref.leq(new_cost, base_cost):
            res.fail(name + ':fit', 'sum of squared DTW distances increased: %r -> %r' % (base_cost, new_cost))
        # (iv) unselected series have no influence: replace them and append one more unselected series
        if True:
            oth = case['other']
            S2 = [s if m else [x[:] if nd > 1 else x for x in oth] for s, m in zip(S, mask)]
            S2.append([x[:] if nd > 1 else x for x in oth])
            m2 = np.array(list(mask) + [False], dtype=bool)
            got2, exc2 = libcall(fn, _cont(case, S2), m2)
            if exc2:
                res.fail('%s:unselected:%s' % (name, exc2), 'dba raised after changing unselected series')
            elif _aslist(got2, nd) != avg:
                res.fail(name + ':unselected', 'changing/adding unselected series changed the result: %r -> %r'
                         % (avg, _aslist(got2, nd)))
    if unique and expected is not None and len(results) > 1:
        names = list(results)
        for k in names[1:]:
            a, b = results[names[0]], results[k]
            fa = a if nd == 1 else [y for x in a for y in x]
            fb = b if nd == 1 else [y for x in b for y in x]
            if len(fa) == len(fb) and not all(ref.close(x, y) for x, y in zip(fa, fb)):
                res.fail('engines-differ', '%s=%r %s=%r with unique optimal paths' % (names[0], a, k, b))
    # (iv') no initial average given: the routine picks one itself; unselected series still have no influence
    oth = case['other']
    S2 = [s if m else [x[:] if nd > 1 else x for x in oth] for s, m in zip(S, mask)]
    if not all(mask):
        res.cls('default-average,unselected-present')
        if not mask[0]:
            res.cls('default-average,first-unselected')
        for name, fn in (('py.dba[c=None]', lambda d: dtw_barycenter.dba(d, None, mask=npmask, use_c=False, **kw)),
                         ('c.dba[c=None]', lambda d: dtw_barycenter.dba(
                             d, None, mask=npmask, use_c=True, **{k: (0 if v is None else v) for k, v in kw.items()})),
                         ('loop.py[c=None]', lambda d: dtw_barycenter.dba_loop(
                             d, c=None, max_it=case['max_it'], thr=0.001, mask=npmask, use_c=False, **kw)),
                         ('loop.c[c=None]', lambda d: dtw_barycenter.dba_loop(
                             d, c=None, max_it=case['max_it'], thr=0.001, mask=npmask, use_c=True,
                             **{k: (0 if v is None else v) for k, v in kw.items()}))):
            g1, e1 = libcall(fn, _cont(case, S))
            g2, e2 = libcall(fn, _cont(case, S2))
            if e1 or e2:
                res.fail('%s:%s' % (name, e1 or e2), 'raised without an initial average')
            elif _aslist(g1, nd) != _aslist(g2, nd):
                res.fail(name + ':unselected', 'no initial average given: changing the unselected series changed the result: '
                         '%r -> %r' % (_aslist(g1, nd), _aslist(g2, nd)))
    # (vi) the iterated loop
    for use_c in (False, True):
        lkw = kw if not use_c else {k: (0 if v is None else v) for k, v in kw.items()}
        c_loop = np.array(c, dtype=np.double)
        got, exc = libcall(dtw_barycenter.dba_loop, data, c=c_loop, max_it=case['max_it'], thr=0.001, mask=npmask,
                           keep_averages=True, use_c=use_c, **lkw)
        tag = 'loop.c' if use_c else 'loop.py'
        if exc:
            res.fail('%s:%s' % (tag, exc), 'dba_loop raised')
            continue
        if not np.array_equal(c_loop, c_snapshot):
            res.fail(tag + ':modified-c', 'dba_loop modified the initial average')
        avg, avgs = got
        if len(avgs) > case['max_it'] or len(avgs) < 1:
            res.fail(tag + ':steps', '%d averages for max_it=%d' % (len(avgs), case['max_it']))
        prev = base_cost
        for k, a in enumerate(avgs):
            cst = _sumsq(_aslist(a, nd), S, mask, rkw)
            if not ref.leq(cst, prev):
                res.fail(tag + ':fit', 'step %d increased the sum of squared distances: %r -> %r' % (k, prev, cst))
                break
            prev = cst
        # the same loop on array.array series with an array.array average (1-D lists only): the caller's objects
        # stay as they were and the averages are those of the ndarray run
        if nd == 1 and case['container'] == 'list':
            import array
            data_a = [array.array('d', s) for s in S]
            c_a = array.array('d', c)
            got_a, exc = libcall(dtw_barycenter.dba_loop, data_a, c=c_a, max_it=case['max_it'], thr=0.001, mask=npmask,
                                 keep_averages=True, use_c=use_c, **lkw)
            if exc:
                res.fail('%s[array]:%s' % (tag, exc), 'dba_loop on array.array series raised')
                continue
            if list(c_a) != list(c) or any(list(x) != list(s) for x, s in zip(data_a, S)):
                res.fail(tag + '[array]:modified-input', 'dba_loop modified the array.array series / initial average')
            avgs_a = got_a[1]
            # only the first step starts from identical inputs in both runs; a last-ulp difference between the two first
            # averages (other summation order) may legitimately select another of two nearly tied optimal paths later on
            if (len(avgs_a) >= 1) != (len(avgs) >= 1) or any(
                    not all(ref.close(x, y) for x, y in zip(_aslist(p, nd), _aslist(q, nd)))
                    for p, q in zip(avgs_a[:1], avgs[:1])):
                res.fail(tag + '[array]:differs', 'averages on array.array series %r, on ndarray series %r'
                         % ([_aslist(p, nd) for p in avgs_a][:2], [_aslist(q, nd) for q in avgs][:2]))
    return res


def legs(tier):
    return [Leg('dba', _case(5 if tier == 'quick' else 10), run, 10000, 100000, max_shrink_buckets=8)]


REGIONS = {}
