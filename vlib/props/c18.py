# -*- coding: utf-8 -*-
"""C18 — the affinity (local-concurrence) matrix follows its recurrence in both engines (DESIGN.md §3 C18)."""
import itertools
import math

from hypothesis import strategies as st

from .. import gen, ref
from ..runner import Leg, Res, libcall

PROPERTY = 'C18'
NEED_C = True
RULE = ('Matrix leg: pairs and self-comparison (series2=None), gamma in (0.05,5], tau in [0,1] (tau = 1 puts every cell except exact matches, whose affinity is exactly 1, on the delta branch), delta <= 0, delta_factor in '
        '(0,1], penalty in {None, 0, positive}, window in {None, 1..}, only_triu; engines Python, C full, C compact expanded '
        'through wps_expand_slice (whole matrix and a prefix of complete rows). Oracle: an independent evaluation of the '
        'documented recurrence over the documented band (cells outside the band / below the diagonal with only_triu are '
        '-inf), checked cell by cell, plus a *local* check of every cell of the returned matrix against its own '
        'neighbours. History leg: one LocalConcurrences object, generated sequences of kbest_matches(k, minlen, buffer, '
        'restart) / kbest_matches_store(keep) / reset; every yielded path must be contiguous and monotone, visit only cells '
        'that are positive in the untouched reference matrix, end at the reported (row, col); within one restart epoch no '
        'cell appears in two matches; after restart=True the matches equal those of a fresh object. Non-trivial: the matrix '
        'has a cell on the < tau branch and a positive cell, lengths >= 3; histories with >= 2 matches and a non-restarting '
        'continuation.')
ASSUMPTIONS = ['1-D series, |x| <= 4 (affinities are exp(-gamma*diff^2)); psi is not part of the property and not generated',
               'values compared with relative tolerance 1e-9']

ninf = float('-inf')


@st.composite
def _base(draw, max_len=7):
    s1 = draw(gen.series(1, max_len, draw(st.sampled_from(['L', 'L', 'F'])), 1))
    s1 = [max(-4.0, min(4.0, x)) for x in s1]
    selfcmp = draw(st.integers(0, 3)) == 0
    if selfcmp:
        s2 = None
    else:
        s2 = [max(-4.0, min(4.0, x)) for x in draw(gen.series(1, max_len, 'L', 1))]
        if draw(st.booleans()) and len(s2) >= 2:
            k = draw(st.integers(0, len(s1) - 1))
            s2[draw(st.integers(0, len(s2) - 1))] = s1[k]
    l2 = len(s1) if s2 is None else len(s2)
    return {'s1': s1, 's2': s2,
            'gamma': draw(st.sampled_from([0.25, 0.5, 1.0, 1.0, 2.0, 5.0])),
            'tau': draw(st.sampled_from([0.0, 0.1, 0.36, 0.5, 0.8, 0.95, 1.0])),
            'delta': draw(st.sampled_from([0.0, -0.1, -0.36, -0.72, -2.0])),
            'delta_factor': draw(st.sampled_from([1.0, 0.9, 0.5, 0.25])),
            'penalty': draw(st.sampled_from([None, 0, 0.05, 0.25, 0.5])),
            'window': draw(st.one_of(st.none(), st.integers(1, max(len(s1), l2) + 1))),
            'only_triu': (draw(st.booleans()) if (s2 is None or len(s1) == l2) else draw(st.integers(0, 3)) == 0),
            'layout': draw(st.sampled_from(['C', 'C', 'C', 'strided', 'reversed']))}


def ref_affinity(case):
    s1 = case['s1']
    s2 = case['s2'] if case['s2'] is not None else case['s1']
    l1, l2 = len(s1), len(s2)
    pen = case['penalty'] or 0.0
    A = [[ninf] * (l2 + 1) for _ in range(l1 + 1)]
    A[0][0] = 0.0
    branch = {}
    for i in range(l1):
        a, b = ref.band(i, l1, l2, case['window'])
        if case['only_triu']:
            a = max(a, i)
        for j in range(a, b):
            d = math.exp(-case['gamma'] * (s1[i] - s2[j]) ** 2)
            prev = max(A[i][j], A[i][j + 1] - pen, A[i + 1][j] - pen)
            if d < case['tau']:
                v = max(0.0, case['delta'] + case['delta_factor'] * prev)
                branch[(i, j)] = 'tau'
            else:
                v = max(0.0, d + prev)
                branch[(i, j)] = 'aff'
            A[i + 1][j + 1] = v
    return A, branch


def _check(res, tag, case, M, A):
    s1 = case['s1']
    s2 = case['s2'] if case['s2'] is not None else case['s1']
    l1, l2 = len(s1), len(s2)
    if len(M) != l1 + 1 or any(len(r) != l2 + 1 for r in M):
        res.fail(tag + ':shape', 'matrix shape %dx%d' % (len(M), len(M[0]) if M else 0))
        return
    pen = case['penalty'] or 0.0
    for i in range(l1):
        for j in range(l2):
            v, e = M[i + 1][j + 1], A[i + 1][j + 1]
            if e == ninf:
                if not (v == ninf):
                    res.fail(tag + ':excluded', 'cell (%d,%d) is outside the band / below the diagonal but holds %r'
                             % (i + 1, j + 1, v))
                    return
                continue
            if not ref.close(v, e):
                # local check: pinpoint whether this cell disagrees with its *own* neighbours
                d = math.exp(-case['gamma'] * (s1[i] - s2[j]) ** 2)
                prev = max(M[i][j], M[i][j + 1] - pen, M[i + 1][j] - pen)
                loc = max(0.0, case['delta'] + case['delta_factor'] * prev) if d < case['tau'] else max(0.0, d + prev)
                res.fail(tag + ':cell', 'cell (%d,%d)=%r, recurrence gives %r (from its own neighbours: %r)'
                         % (i + 1, j + 1, v, e, loc))
                return


def _view(a, kind):
    """The same values as a non-contiguous view (every second sample of a longer buffer / a reversed buffer)."""
    import numpy as np
    if kind == 'strided':
        big = np.full(2 * len(a), 77.125)
        big[::2] = a
        return big[::2]
    if kind == 'reversed':
        return np.array(a[::-1])[::-1]
    return a


def _lib_kw(case):
    return {'window': case['window'], 'only_triu': case['only_triu'], 'penalty': case['penalty'], 'gamma': case['gamma'],
            'tau': case['tau'], 'delta': case['delta'], 'delta_factor': case['delta_factor']}


def run_matrix(case):
    import numpy as np
    from dtaidistance import dtw, dtw_cc
    res = Res()
    s1 = case['s1']
    s2 = case['s2'] if case['s2'] is not None else case['s1']
    l1, l2 = len(s1), len(s2)
    A, branch = ref_affinity(case)
    pos = any(A[i + 1][j + 1] > 0 for (i, j) in branch)
    res.nontrivial = l1 >= 3 and l2 >= 3 and pos and 'tau' in branch.values()
    res.cls('self' if case['s2'] is None else 'pair', 'triu' if case['only_triu'] else 'full',
            'penalty=None' if case['penalty'] is None else ('penalty>0' if case['penalty'] else 'penalty=0'),
            'window' if case['window'] is not None else 'no-window')
    a1 = _view(np.array(s1, dtype=np.double), case.get('layout'))
    # a self-comparison hands the *same object* over twice, as LocalConcurrences(series) does
    a2 = a1 if case['s2'] is None else _view(np.array(s2, dtype=np.double), case.get('layout'))
    if case.get('layout', 'C') != 'C':
        res.cls('layout=' + case['layout'])
    kw = _lib_kw(case)
    got, exc = libcall(dtw.warping_paths_affinity, a1, a2, **kw)
    if exc:
        res.fail('py:' + exc, 'warping_paths_affinity raised')
    else:
        d, M = got
        M = [[float(x) for x in r] for r in np.asarray(M)]
        _check(res, 'py', case, M, A)
        if not ref.close(d, A[l1][l2]) and not (A[l1][l2] == ninf and d == ninf):
            res.fail('py:value', 'returned value %r, corner of the reference matrix %r' % (d, A[l1][l2]))
    got, exc = libcall(dtw.warping_paths_affinity_fast, a1, a2, compact=False, **kw)
    if exc:
        res.fail('c-full:' + exc, 'warping_paths_affinity_fast raised')
    else:
        d, M = got
        M = [[float(x) for x in r] for r in np.asarray(M)]
        _check(res, 'c-full', case, M, A)
    got, exc = libcall(dtw.warping_paths_affinity, a1, a2, use_c=True, **kw)
    if exc:
        res.fail('c-use_c:' + exc, 'warping_paths_affinity(use_c=True) raised')
    else:
        d, M = got
        M = [[float(x) for x in r] for r in np.asarray(M)]
        _check(res, 'c-use_c', case, M, A)
    got, exc = libcall(dtw.warping_paths_affinity_fast, a1, a2, compact=True, **kw)
    if exc:
        res.fail('c-compact:' + exc, 'warping_paths_affinity_fast(compact=True) raised')
        return res
    d, W = got
    W = np.ascontiguousarray(W, dtype=np.double)
    cs = dtw_cc.DTWSettings(window=case['window'], penalty=case['penalty'])
    for re_ in sorted({l1 + 1, 1 + (l1 // 2)}):
        sl = np.full((re_, l2 + 1), 12345.678)
        _r, exc = libcall(dtw_cc.wps_expand_slice, W, sl, l1, l2, 0, re_, 0, l2 + 1, cs)
        if exc:
            res.fail('c-compact:expand:' + exc, 'wps_expand_slice raised')
            continue
        M = [[float(x) for x in r] for r in sl]
        Ar = [row[:] for row in A[:re_]]
        sub = dict(case)
        sub_s1 = s1[:re_ - 1]
        # compare only the rows expanded
        for i in range(re_ - 1):
            for j in range(l2):
                v, e = M[i + 1][j + 1], A[i + 1][j + 1]
                ok = (v == e) if e == ninf else ref.close(v, e)
                if not ok:
                    res.fail('c-compact:cell', 'expanded rows [0:%d): cell (%d,%d)=%r, recurrence gives %r'
                             % (re_, i + 1, j + 1, v, e))
                    break
            else:
                continue
            break
    return res


# ------------------------------------------------------------------------------------------------------
# histories on one LocalConcurrences object
# ------------------------------------------------------------------------------------------------------
@st.composite
def _case_hist(draw):
    c = draw(_base(max_len=11))
    c['use_c'] = draw(st.booleans())
    c['tau'] = draw(st.sampled_from([0.1, 0.36, 0.5, 0.8, 1.0]))
    c['delta'] = draw(st.sampled_from([-0.1, -0.36, -0.72, -2.0]))
    ops = []
    for _ in range(draw(st.integers(1, 5))):
        kind = draw(st.sampled_from(['kbest', 'kbest', 'store', 'reset']))
        if kind == 'kbest':
            ops.append(['kbest', draw(st.integers(1, 4)), draw(st.sampled_from([1, 2, 2, 3])), draw(st.booleans())])
        elif kind == 'store':
            ops.append(['store', draw(st.integers(1, 4)), draw(st.sampled_from([1, 2])), draw(st.booleans())])
        else:
            ops.append(['reset'])
    c['ops'] = ops
    return c


def _mk_lc(case):
    import numpy as np
    from dtaidistance.subsequence.localconcurrences import LocalConcurrences
    a1 = _view(np.array(case['s1'], dtype=np.double), case.get('layout'))
    a2 = None if case['s2'] is None else _view(np.array(case['s2'], dtype=np.double), case.get('layout'))
    lc = LocalConcurrences(a1, a2, gamma=case['gamma'], tau=case['tau'], delta=case['delta'],
                           delta_factor=case['delta_factor'], only_triu=case['only_triu'], penalty=case['penalty'],
                           window=case['window'], use_c=case['use_c'])
    lc.align()
    return lc


def _paths(it, limit):
    out = []
    for m in itertools.islice(it, limit):
        out.append((int(m.row), int(m.col), [(int(a), int(b)) for a, b in m.path]))
    return out


def _check_paths(res, tag, case, A, matches, used):
    for row, col, p in matches:
        if not p:
            res.fail(tag + ':empty', 'empty path for match (%d,%d)' % (row, col))
            return
        if p[-1] != (row - 1, col - 1):
            res.fail(tag + ':end', 'path ends at %r, match reported (%d,%d)' % (p[-1], row, col))
            return
        for a, b in zip(p, p[1:]):
            if (b[0] - a[0], b[1] - a[1]) not in ((1, 1), (1, 0), (0, 1)):
                res.fail(tag + ':step', 'illegal step %r -> %r' % (a, b))
                return
        for (i, j) in p:
            if not (0 <= i < len(A) - 1 and 0 <= j < len(A[0]) - 1) or not (A[i + 1][j + 1] > 0):
                res.fail(tag + ':non-positive-cell', 'path visits cell %r whose affinity is %r'
                         % ((i, j), A[i + 1][j + 1] if (0 <= i < len(A) - 1 and 0 <= j < len(A[0]) - 1) else None))
                return
            if (i, j) in used:
                res.fail(tag + ':reuse', 'cell %r is used by two matches of the same epoch' % ((i, j),))
                return
        used.update(p)


def run_hist(case):
    res = Res()
    A, branch = ref_affinity(case)
    l1 = len(case['s1'])
    l2 = l1 if case['s2'] is None else len(case['s2'])
    cap = (l1 + 1) * (l2 + 1) + 2
    res.cls('use_c' if case['use_c'] else 'python', 'self' if case['s2'] is None else 'pair')
    lc, exc = libcall(_mk_lc, case)
    if exc:
        res.fail('hist:init:' + exc, 'LocalConcurrences / align raised')
        return res
    # the object's own matrix (full, or compact expanded through wp_slice) must be the reference matrix
    import numpy as np
    Mo, exc = libcall(lambda: np.array(lc.wp_slice() if lc.compact else lc.wp, dtype=float))
    if exc:
        res.fail('hist:matrix:' + exc, 'reading the matrix of the LocalConcurrences object raised')
    else:
        _check(res, 'hist:matrix', case, [[float(x) for x in r] for r in Mo], A)
    amax = max(max(r[1:]) for r in A[1:]) if l1 and l2 else 0.0
    used = set()
    total = 0
    cont = False
    for op in case['ops']:
        if op[0] == 'reset':
            _r, exc = libcall(lc.reset)
            lc2, exc2 = libcall(lc.align)
            used = set()
            if exc or exc2:
                res.fail('hist:reset:' + (exc or exc2), 'reset/align raised')
                return res
            continue
        if op[0] == 'kbest':
            _, k, minlen, restart = op
            got, exc = libcall(lambda: _paths(lc.kbest_matches(k=k, minlen=minlen, buffer=0, restart=restart), cap))
        else:
            _, k, minlen, keep = op
            restart = True
            got, exc = libcall(lambda: _paths(lc.kbest_matches_store(k=k, minlen=minlen, buffer=0, restart=True, keep=keep),
                                              cap))
        if exc:
            res.fail('hist:%s:%s' % (op[0], exc), '%r raised' % (op,))
            return res
        if len(got) > k:
            res.fail('hist:count', '%d matches for k=%d' % (len(got), k))
        if restart:
            used = set()
            # matches are traced from a maximum: with minlen <= 1 the first match must exist whenever a positive cell
            # exists and must start from a cell holding the maximum of the matrix
            if minlen <= 1 and amax > 0:
                if not got:
                    res.fail('hist:no-match', '%r returned no match although the matrix has positive cells (max %r)'
                             % (op, amax))
                elif not ref.close(A[got[0][0]][got[0][1]], amax):
                    res.fail('hist:not-from-maximum', 'first match starts at (%d,%d) = %r, the maximum is %r'
                             % (got[0][0], got[0][1], A[got[0][0]][got[0][1]], amax))
            fresh, excf = libcall(_mk_lc, case)
            if excf is None:
                exp, excf = libcall(lambda: _paths(fresh.kbest_matches(k=k, minlen=minlen, buffer=0, restart=True), cap))
                if excf is None and exp != got:
                    res.fail('hist:restart-differs', '%r after a restart: %r, fresh object: %r' % (op, got, exp))
        else:
            cont = True
        _check_paths(res, 'hist:path', case, A, got, used)
        for _row, _col, p in got:
            if len(p) < minlen:
                res.fail('hist:minlen', 'path of length %d for minlen=%d' % (len(p), minlen))
        total += len(got)
        if op[0] == 'store' and not op[3]:
            used = set()       # keep=False resets the mask afterwards
    res.nontrivial = total >= 2 and cont and l1 >= 3
    return res


def _all_shapes(nmax):
    """Every (len1, len2, window, only_triu) up to nmax with one fixed data pattern: where a band cell lives in the
    compact layout, and where it is put back by the expansion, depends on the shape only."""
    out = []
    for l1 in range(1, nmax + 1):
        for l2 in range(1, nmax + 1):
            for w in list(range(1, max(l1, l2) + 1)) + [None]:
                for triu in (False, True):
                    out.append({'s1': [((i * 7) % 5) / 2.0 for i in range(l1)], 's2': [((j * 3 + 1) % 5) / 2.0 for j in range(l2)],
                                'gamma': 1.0, 'tau': 0.36, 'delta': -0.36, 'delta_factor': 0.5, 'penalty': 0.05,
                                'window': w, 'only_triu': triu, 'layout': 'C'})
    return out


def legs(tier):
    nmax = 13 if tier == 'quick' else 22
    return [Leg('matrix', _base(max_len=12 if tier == 'quick' else 18), run_matrix, 10000, 100000, max_shrink_buckets=8),
            Leg('history', _case_hist(), run_hist, 2400, 24000, max_shrink_buckets=6),
            Leg('all-shapes', None, run_matrix, 0, 0, cases=lambda: _all_shapes(nmax))]


REGIONS = {}
