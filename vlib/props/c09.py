# -*- coding: utf-8 -*-
"""C09 — LB_Keogh <= DTW <= Euclidean upper bound, same in both engines (DESIGN.md §3 C09)."""
import ctypes

from hypothesis import strategies as st

from .. import gen, ref, capi
from ..runner import Leg, Res, libcall

PROPERTY = 'C09'
NEED_C = True
RULE = ('Pairs with explicit sign classes (all-negative, all-positive, mixed, constant; lattice and float), equal and '
        'unequal lengths, window None/1.., any penalty (lower-bound leg, no psi), any psi (upper-bound leg, penalty 0), '
        'ndim 1..3 for the upper bound, both inner distances, engines Python / use_c / ed_cc / dtw_cc / exported C '
        'functions through ctypes. Oracles: lb_keogh <= reference DTW (same window), ED >= reference penalty-free DTW, '
        'each implementation of a bound equals the independent reference bound, only_ub returns ED. Non-trivial: '
        'LB > 0, or unequal lengths, or ndim > 1, or negative values present.'
        " The Python LB_Keogh is also called with the inner distance as an object: the library's own classes (class and instance: same value as for the name) and user-supplied ones (|x-y|^3, 2|x-y|, |x-y|, |x-y|^4: the bound under that inner distance, never above the DTW distance under it).")
ASSUMPTIONS = ['finite doubles |x| <= 1e3, lengths <= 12', 'inequalities carry a relative slack of 1e-9']


@st.composite
def _pair(draw, max_len, ndim):
    s1, s2, regime = draw(gen.series_pair(max_len=max_len, ndim=ndim))
    sign = draw(st.sampled_from(['asis', 'asis', 'neg', 'pos', 'negshift']))

    def tr(x):
        if sign == 'neg':
            return -abs(x) - 0.25
        if sign == 'pos':
            return abs(x) + 0.25
        if sign == 'negshift':
            return x - 6.0
        return x
    if ndim == 1:
        s1 = [tr(x) for x in s1]
        s2 = [tr(x) for x in s2]
    else:
        s1 = [[tr(y) for y in x] for x in s1]
        s2 = [[tr(y) for y in x] for x in s2]
    return s1, s2, regime, sign


@st.composite
def _case_lb(draw, max_len):
    s1, s2, regime, sign = draw(_pair(max_len, 1))
    window = draw(gen.window_strategy(len(s1), len(s2)))
    if draw(st.integers(0, 7)) == 0:
        # long series with a wide window (the envelope then starts at the first sample for many rows and reaches the
        # last sample long before the last row)
        l1 = draw(st.integers(17, 64))
        l2 = draw(st.integers(max(17, l1 - 6), l1 + 6))
        s1 = draw(st.lists(gen.LATTICE, min_size=l1, max_size=l1))
        s2 = draw(st.lists(gen.LATTICE, min_size=l2, max_size=l2))
        window = draw(st.one_of(st.integers(max(l1, l2) // 2, max(l1, l2) + 1), st.integers(17, 40), st.none()))
        sign = 'asis'
    if draw(st.integers(0, 2)) == 0:
        # a value outside the range of everything else in the first / last one or two samples of the enveloped series,
        # and at a few places of the other series: where the envelope is clipped at the ends of the series is then
        # decisive for the bound
        e = draw(st.sampled_from([9.0, -9.0]))
        s1, s2 = list(s1), list(s2)
        for k in range(draw(st.integers(1, 2))):
            if k < len(s2):
                s2[(-1 - k) if draw(st.booleans()) else k] = e
        for pos in draw(st.lists(st.integers(0, len(s1) - 1), min_size=1, max_size=3)):
            s1[pos] = e
    return {'s1': s1, 's2': s2, 'sign': sign, 'window': window,
            'penalty': draw(gen.penalty_strategy('L')), 'inner': draw(st.sampled_from(gen.INNER_NAMES)),
            'custom': draw(st.sampled_from([[], [], ['custom_cubic'], ['custom_double'], ['custom_abs', 'custom_pow4']]))}


@st.composite
def _case_ub(draw, max_len):
    ndim = draw(st.sampled_from([1, 1, 2, 3]))
    s1, s2, regime, sign = draw(_pair(max_len, ndim))
    psi, _ = draw(gen.psi_strategy(len(s1), len(s2), ('none', 'none', 'int', 'tuple')))
    return {'s1': s1, 's2': s2, 'sign': sign, 'ndim': ndim, 'window': draw(gen.window_strategy(len(s1), len(s2))),
            'psi': psi, 'inner': draw(st.sampled_from(gen.INNER_NAMES))}


def run_lb(case):
    import numpy as np
    from dtaidistance import dtw, dtw_cc
    res = Res()
    s1, s2, w, inner = case['s1'], case['s2'], case['window'], case['inner']
    d = ref.ref_dtw(s1, s2, window=w, penalty=case['penalty'], inner=inner)
    lb = ref.ref_lb_keogh(s1, s2, window=w, inner=inner)
    if not ref.leq(lb, d):
        raise AssertionError('reference LB_Keogh %r exceeds reference DTW %r: %r' % (lb, d, case))
    res.cls('sign=' + case['sign'], 'inner=' + inner, 'unequal' if len(s1) != len(s2) else 'equal')
    res.nontrivial = lb > 0 or len(s1) != len(s2) or min(min(s1), min(s2)) < 0
    if lb > 0:
        res.cls('LB>0')
    a1, a2 = np.array(s1, dtype=np.double), np.array(s2, dtype=np.double)
    cs = capi.settings(window=w, inner_dist=inner)
    L = capi.lib('dtw_cc')
    f1, f2 = capi.darr(s1), capi.darr(s2)
    impls = [
        ('py.lb_keogh', lambda: dtw.lb_keogh(list(s1), list(s2), window=w, inner_dist=inner)),
        ('py.lb_keogh[ndarray]', lambda: dtw.lb_keogh(a1, a2, window=w, inner_dist=inner)),
        ('c.lb_keogh(use_c)', lambda: dtw.lb_keogh(a1, a2, window=w, inner_dist=inner, use_c=True)),
        ('dtw_cc.lb_keogh', lambda: dtw_cc.lb_keogh(a1, a2, window=w, inner_dist=inner)),
        ('C:lb_keogh', lambda: L.lb_keogh(capi.ptr(f1), len(s1), capi.ptr(f2), len(s2), ctypes.byref(cs))),
    ]
    # the Python engine also takes the inner distance as an object: the library's own classes (same bound as for the
    # name) and user-supplied ones (the bound of that inner distance, which must not exceed the DTW distance under it)
    from dtaidistance import innerdistance
    from .. import inner as vinner
    own = innerdistance.SquaredEuclidean if inner == 'squared euclidean' else innerdistance.Euclidean
    impls.append(('py.lb_keogh[class object]', lambda: dtw.lb_keogh(list(s1), list(s2), window=w, inner_dist=own)))
    impls.append(('py.lb_keogh[instance]', lambda: dtw.lb_keogh(a1, a2, window=w, inner_dist=own())))
    for name, fn in impls:
        v, exc = libcall(fn)
        if exc:
            res.fail('lb:%s:%s' % (name, exc), 'raised')
            continue
        if not ref.leq(v, d):
            res.fail('lb:%s:exceeds-dtw' % name, '%s=%r > DTW=%r (window=%r)' % (name, v, d, w))
        if not ref.close(v, lb):
            res.fail('lb:%s:value' % name, '%s=%r, reference LB_Keogh=%r' % (name, v, lb))
    for cname in case.get('custom', ()):
        dc = ref.ref_dtw(s1, s2, window=w, penalty=case['penalty'], inner=cname)
        lbc = ref.ref_lb_keogh(s1, s2, window=w, inner=cname)
        v, exc = libcall(dtw.lb_keogh, list(s1), list(s2), window=w, inner_dist=vinner.lib_inner(cname))
        name = 'py.lb_keogh[%s]' % cname
        if exc:
            res.fail('lb:%s:%s' % (name, exc), 'raised')
            continue
        if not ref.leq(v, dc):
            res.fail('lb:%s:exceeds-dtw' % name, '%s=%r > DTW=%r under the same inner distance (window=%r)' % (name, v, dc, w))
        if not ref.close(v, lbc):
            res.fail('lb:%s:value' % name, '%s=%r, reference LB_Keogh=%r' % (name, v, lbc))
    return res


def run_ub(case):
    import numpy as np
    from dtaidistance import dtw, dtw_ndim, ed, ed_cc, dtw_cc
    res = Res()
    s1, s2, inner, nd = case['s1'], case['s2'], case['inner'], case['ndim']
    e = ref.ref_ed(s1, s2, inner)
    d = ref.ref_dtw(s1, s2, window=case['window'], psi=gen.psi4(case['psi']), inner=inner)
    if not ref.leq(d, e):
        raise AssertionError('reference DTW %r exceeds reference ED %r: %r' % (d, e, case))
    res.cls('sign=' + case['sign'], 'inner=' + inner, 'ndim=%d' % nd, 'unequal' if len(s1) != len(s2) else 'equal')
    flat = [y for x in (s1 + s2) for y in (x if isinstance(x, list) else [x])]
    res.nontrivial = len(s1) != len(s2) or nd > 1 or min(flat) < 0
    a1, a2 = np.array(s1, dtype=np.double), np.array(s2, dtype=np.double)
    ic = 0 if inner == 'squared euclidean' else 1
    L = capi.lib('dtw_cc')
    E = capi.lib('ed_cc')
    f1, f2 = capi.darr(s1), capi.darr(s2)
    sfx = '' if ic == 0 else '_euclidean'
    kw = {'window': case['window'], 'psi': gen.psi_to_lib(case['psi']), 'inner_dist': inner}
    if nd == 1:
        impls = [
            ('ed.distance', lambda: ed.distance(list(s1), list(s2), inner_dist=inner)),
            ('ed.distance[ndarray]', lambda: ed.distance(a1, a2, inner_dist=inner)),
            ('ed.distance_fast', lambda: ed.distance_fast(a1, a2, inner_dist=inner)),
            ('ed_cc.distance', lambda: ed_cc.distance(a1, a2, ic)),
            ('dtw.ub_euclidean', lambda: dtw.ub_euclidean(list(s1), list(s2), inner_dist=inner)),
            ('C:ub_euclidean', lambda: getattr(L, 'ub_euclidean' + sfx)(capi.ptr(f1), len(s1), capi.ptr(f2), len(s2))),
            ('C:euclidean_distance', lambda: getattr(E, 'euclidean_distance' + sfx)(
                capi.ptr(f1), len(s1), capi.ptr(f2), len(s2))),
            ('py.distance(only_ub)', lambda: dtw.distance(list(s1), list(s2), only_ub=True, **kw)),
            ('c.distance_fast(only_ub)', lambda: dtw.distance_fast(a1, a2, only_ub=True, **kw)),
            ('c.distance(use_c,only_ub)', lambda: dtw.distance(a1, a2, only_ub=True, use_c=True, **kw)),
        ]
        if ic == 0:
            impls.append(('dtw_cc.ub_euclidean', lambda: dtw_cc.ub_euclidean(a1, a2)))
    else:
        impls = [
            ('ed.distance(use_ndim)', lambda: ed.distance(a1, a2, inner_dist=inner, use_ndim=True)),
            ('ed_cc.distance_ndim', lambda: ed_cc.distance_ndim(a1, a2, ic)),
            ('dtw_ndim.ub_euclidean', lambda: dtw_ndim.ub_euclidean(a1, a2, inner_dist=inner)),
            ('C:ub_euclidean_ndim', lambda: getattr(L, 'ub_euclidean_ndim' + sfx)(
                capi.ptr(f1), len(s1), capi.ptr(f2), len(s2), nd)),
            ('C:euclidean_distance_ndim', lambda: getattr(E, 'euclidean_distance_ndim' + sfx)(
                capi.ptr(f1), len(s1), capi.ptr(f2), len(s2), nd)),
            ('py.ndim.distance(only_ub)', lambda: dtw_ndim.distance(a1, a2, only_ub=True, **kw)),
            ('c.ndim.distance_fast(only_ub)', lambda: dtw_ndim.distance_fast(a1, a2, only_ub=True, **kw)),
        ]
        if ic == 0:
            impls.append(('dtw_cc.ub_euclidean_ndim', lambda: dtw_cc.ub_euclidean_ndim(a1, a2)))
    for name, fn in impls:
        v, exc = libcall(fn)
        if exc:
            res.fail('ub:%s:%s' % (name, exc), 'raised')
            continue
        try:
            v = float(v)
        except (TypeError, ValueError):
            res.fail('ub:%s:type' % name, 'returned %r' % (v,))
            continue
        if not ref.leq(d, v):
            res.fail('ub:%s:below-dtw' % name, '%s=%r < penalty-free DTW=%r' % (name, v, d))
        if not ref.close(v, e):
            res.fail('ub:%s:value' % name, '%s=%r, reference ED=%r' % (name, v, e))
    # the library's own DTW must respect its own bound too (both engines)
    for name, fn in (('py', lambda: dtw.distance(list(s1) if nd == 1 else a1, list(s2) if nd == 1 else a2,
                                                use_ndim=(nd > 1), **kw)),
                     ('c', lambda: dtw.distance_fast(a1, a2, use_ndim=(nd > 1), **kw))):
        v, exc = libcall(fn)
        if exc is None and not ref.leq(v, e):
            res.fail('ub:dtw-above-ed:' + name, '%s DTW=%r > ED=%r' % (name, v, e))
    return res


def legs(tier):
    ml = 8 if tier == 'quick' else 12
    return [Leg('lower-bound', _case_lb(ml), run_lb, 12000, 160000), Leg('upper-bound', _case_ub(ml), run_ub, 12000, 160000)]


REGIONS = {}
