# -*- coding: utf-8 -*-
"""C08 — the C engine stays within its buffers and executes no undefined behaviour (DESIGN.md §3 C08, §2.8a).

The deciding step runs in native code: native/c08_harness.c links the repository's C sources, decodes bytes into
structured arguments, allocates every buffer at exactly the documented size and calls the exported routine under
AddressSanitizer + UndefinedBehaviorSanitizer (recovery off).  Two drivers share that entry function: a
deterministic sweep over the structural lattice (gcc + ASan/UBSan + real OpenMP) and libFuzzer (clang).
This module builds both from /repo's current sources, shards the campaigns and turns sanitizer reports into
failures whose replay file is the single failing input."""
import json
import os
import re
import shutil
import subprocess
import tempfile

from .. import stage
from ..runner import Leg, Res, load_known

PROPERTY = 'C08'
NEED_C = True
RULE = ('Sweep: for every exported routine group (14 ops: 1-D / n-D distance kernels, warping paths into a compact buffer '
        'of dtw_settings_wps_length + dtw_expand_wps + dtw_best_path + dtw_best_path_isclose, dtw_expand_wps_slice, '
        'dtw_best_path_customstart, dtw_warping_path(_ndim), dtw_wps_loc/loc_columns/negativize/positivize/max, bounds, '
        'serial and OpenMP distance matrices over pointer and matrix forms with every valid block, dtw_dba_ptrs/matrix, '
        'affinity kernels + expansion + best_path_affinity) the complete lattice l1,l2 in 1..L (L=4 quick, 6 thorough) x '
        'window 0..max+1 x 81 psi patterns with entries in {0,1,len} (+ len-1 variants) x 16 flag sets (penalty, max_step, '
        'max_dist, pruning, inner distance, psi_neg, keep_int_repr) x value draws from a PRNG seeded by VERIF_SEED. '
        'libFuzzer: the same entry, lengths to 12, empty and seeded corpus, -seed from VERIF_SEED. Oracle: any ASan/UBSan '
        'report, or a violated semantic side-condition (path indices inside the series, pointer and matrix form of a '
        'distance matrix identical, compact location inside the compact array). evaluations = executions of the entry '
        'function; distinct_nontrivial = sweep configurations (distinct by construction) with a non-full band, non-zero '
        'psi, ndim > 1 or a block; fuzz executions are not counted as distinct.')
ASSUMPTIONS = ['sanitizers see executed paths only; lengths <= 12; idx_t overflow sizes and uninitialised reads are not explored',
               'NDEBUG is defined as in the shipped build (asserts compiled out)',
               'the OpenMP routines are exercised with the real libgomp only in the sweep binary (clang has no OpenMP '
               'runtime here; the libFuzzer target skips them)']

NOPS = 14
_bins = {}


def _native_dir():
    c_hash, _ = stage.hashes()
    h = c_hash
    src = os.path.join(os.path.dirname(os.path.dirname(os.path.dirname(os.path.abspath(__file__)))), 'native',
                       'c08_harness.c')
    import hashlib
    hh = hashlib.sha1(open(src, 'rb').read()).hexdigest()[:8]
    return os.path.join(stage.CACHE, 'native', '%s-%s' % (h, hh)), src


def prepare(tier, stage_dir):
    d, src = _native_dir()
    cs = stage.csrc_dir()
    with stage._Lock('native.lock'):
        if not os.path.exists(os.path.join(d, '.ok')):
            tmp = d + '.tmp%d' % os.getpid()
            shutil.rmtree(tmp, ignore_errors=True)
            os.makedirs(tmp)
            csrcs = [os.path.join(cs, f) for f in ('dd_dtw.c', 'dd_ed.c', 'dd_dtw_openmp.c', 'dd_globals.c')]
            common = ['-fsanitize=address,undefined', '-fno-sanitize-recover=all', '-g', '-O1', '-DNDEBUG', '-I' + cs,
                      '-w']
            cmds = [
                ['gcc', '-fopenmp'] + common + [src] + csrcs + ['-lm', '-o', os.path.join(tmp, 'c08_sweep')],
                ['clang', '-fsanitize=fuzzer', '-DFUZZ'] + common + [src] + csrcs + ['-lm', '-o',
                                                                                     os.path.join(tmp, 'c08_fuzz')],
            ]
            for cmd in cmds:
                r = subprocess.run(cmd, stdout=subprocess.PIPE, stderr=subprocess.STDOUT, text=True)
                if r.returncode != 0:
                    raise RuntimeError('native build failed: %s\n%s' % (' '.join(cmd), r.stdout[-3000:]))
            open(os.path.join(tmp, '.ok'), 'w').close()
            shutil.rmtree(d, ignore_errors=True)
            os.makedirs(os.path.dirname(d), exist_ok=True)
            os.rename(tmp, d)
            stage._evict('native')
    return d


def _exclusions():
    ex = []
    for e in load_known(PROPERTY):
        if e.get('status') == 'open' and e.get('native_exclude'):
            if not os.environ.get('C08_NO_EXCLUDE'):
                ex.append(e['native_exclude'])
    return ','.join(ex)


def _env():
    env = dict(os.environ)
    env['C08_EXCLUDE'] = env.get('C08_EXCLUDE_OVERRIDE', _exclusions())
    env['OMP_NUM_THREADS'] = '2'
    env['ASAN_OPTIONS'] = 'detect_leaks=1:abort_on_error=0:allocator_may_return_null=1'
    env['UBSAN_OPTIONS'] = 'print_stacktrace=1'
    return env


def _parse(res, out, what):
    """Turn the output of a native run into counters / a failure with the single failing input as reproducer."""
    m = re.search(r'C08-OK exec=(\d+) skipped=(\d+)(?: nontrivial=(\d+) semantic=(\d+))?', out)
    if m:
        res.count('native_exec', int(m.group(1)))
        res.count('native_skipped_known', int(m.group(2)))
        if m.group(3):
            res.nt_count = int(m.group(3))
            res.count('native_semantic_checks', int(m.group(4)))
    fm = re.search(r'C08-FAILING-INPUT ([0-9a-f]+)', out)
    sm = re.search(r'SUMMARY: (\w+): ([\w-]+) .*? in (\w+)', out)
    um = re.search(r'runtime error: ([^\n]+)', out)
    se = re.search(r'C08-SEMANTIC-FAILURE ([^\n]+)', out)
    if fm or sm or um or se:
        if se:
            bucket = 'semantic:' + re.sub(r'\W+', '_', se.group(1))[:60]
            msg = se.group(1)
        elif sm:
            bucket = '%s@%s' % (sm.group(2), sm.group(3))
            msg = sm.group(0)
        elif um:
            bucket = 'ubsan:' + re.sub(r'\W+', '_', um.group(1))[:60]
            msg = um.group(0)
        else:
            bucket = 'abort'
            msg = 'native harness aborted'
        loc = re.search(r'#0 0x[0-9a-f]+ in (\w+) ([^\s]+)', out)
        if loc:
            msg += ' at %s %s' % (loc.group(1), os.path.basename(loc.group(2)))
        repro = ('one', {'hex': fm.group(1)}) if fm else None
        res.fail(bucket, '%s (%s)' % (msg, what), repro=repro)
        return False
    if not m:
        res.fail('native-run', 'native run produced neither a result nor a report (%s): %s' % (what, out[-300:]))
        return False
    return True


def run_sweep(case):
    res = Res()
    d, _ = _native_dir()
    r = subprocess.run([os.path.join(d, 'c08_sweep'), 'sweep', str(case['shard']), str(case['nshards']),
                        str(case['seed']), str(case['maxl']), str(case['draws'])], env=_env(),
                       stdout=subprocess.DEVNULL, stderr=subprocess.PIPE, text=True, errors='replace')
    res.nontrivial = True
    _parse(res, r.stderr, 'sweep shard %d/%d maxl=%d' % (case['shard'], case['nshards'], case['maxl']))
    return res


def run_one(case):
    res = Res()
    d, _ = _native_dir()
    env = _env()
    if case.get('no_exclude'):
        env['C08_EXCLUDE'] = ''
    r = subprocess.run([os.path.join(d, 'c08_sweep'), 'one', case['hex']], env=env, stdout=subprocess.DEVNULL,
                       stderr=subprocess.PIPE, text=True, errors='replace')
    res.nontrivial = True
    _parse(res, r.stderr, 'single input')
    return res


SEED_CORPUS = ['000505010000000000', '0104060200010001110102', '02070503010100012000', '0306040200000000400201',
               '0405050000000000000080000000', '05060602000000000000020300', '0604070301000100010002',
               '0705050200000000100000', '0803030000000000000100010b1b02', '0a0404010000000001010003',
               '0b050500000000002000010000', '0c0606020000000000000102030400', '0d0404000000000010020000']


def run_fuzz(case):
    res = Res()
    d, _ = _native_dir()
    work = tempfile.mkdtemp(prefix='c08fuzz-', dir=stage.CACHE)
    try:
        corpus = os.path.join(work, 'corpus')
        os.makedirs(corpus)
        if case['seeded']:
            for k, h in enumerate(SEED_CORPUS):
                with open(os.path.join(corpus, 'seed%d' % k), 'wb') as f:
                    f.write(bytes.fromhex(h))
        r = subprocess.run([os.path.join(d, 'c08_fuzz'), '-runs=%d' % case['runs'], '-seed=%d' % case['seed'],
                            '-max_len=56', '-len_control=0', '-artifact_prefix=' + work + '/', '-print_final_stats=1',
                            corpus], env=_env(), stdout=subprocess.DEVNULL, stderr=subprocess.PIPE, text=True,
                           errors='replace', cwd=work)
        out = r.stderr
        res.nontrivial = True
        m = re.search(r'stat::number_of_executed_units:\s*(\d+)', out)
        if m:
            res.count('native_exec', int(m.group(1)))
            res.count('fuzz_exec', int(m.group(1)))
        cov = re.findall(r'cov: (\d+)', out)
        if cov:
            res.count('fuzz_cov_edges_max', 0)
            res.cls('fuzz-cov>=%d' % (int(cov[-1]) // 100 * 100))
        arts = [f for f in os.listdir(work) if f.startswith(('crash-', 'leak-', 'timeout-', 'oom-'))]
        if r.returncode != 0 or arts:
            hexin = None
            if arts:
                hexin = open(os.path.join(work, arts[0]), 'rb').read().hex()
            fm = re.search(r'C08-FAILING-INPUT ([0-9a-f]+)', out)
            if fm and not hexin:
                hexin = fm.group(1)
            if not _parse(res, out + ('\nC08-FAILING-INPUT %s\n' % hexin if hexin and not fm else ''),
                          'libFuzzer seed=%d' % case['seed']):
                return res
            res.fail('fuzz-exit', 'libFuzzer exited with %s: %s' % (r.returncode, out[-300:]),
                     repro=('one', {'hex': hexin}) if hexin else None)
    finally:
        shutil.rmtree(work, ignore_errors=True)
    return res


def legs(tier):
    seed = int(os.environ.get('VERIF_SEED', '1'))
    if tier == 'quick':
        maxl, nsh, draws, runs, nf = 4, 32, 1, 40000, 8
    else:
        maxl, nsh, draws, runs, nf = 6, 128, 3, 3000000, 16
    sweep = [{'shard': k, 'nshards': nsh, 'seed': seed, 'maxl': maxl, 'draws': draws} for k in range(nsh)]
    fuzz = [{'seed': seed * 100 + k + 1, 'runs': runs, 'seeded': k % 2 == 1} for k in range(nf)]
    return [Leg('sweep', None, run_sweep, 0, 0, cases=sweep),
            Leg('fuzz', None, run_fuzz, 0, 0, cases=fuzz),
            Leg('one', None, run_one, 0, 0, cases=[])]


def extra_evidence(tier, merged):
    ex = sum(m['counters'].get('native_exec', 0) for m in merged.values())
    nt = sum(m.get('nt_extra', 0) for m in merged.values())
    out = {'evaluations': ex, 'distinct_nontrivial': nt,
           'native': {l: m['counters'] for l, m in merged.items()},
           'exhaustive_subspaces': {'sweep-structural-lattice(op,l1,l2,window,psi-pattern,flags)':
                                    merged.get('sweep', {}).get('counters', {}).get('native_exec', 0)},
           'samples': [{'leg': 'one', 'case': {'hex': h}} for h in SEED_CORPUS[:6]],
           'exclusions_for_open_findings': _exclusions()}
    return out


def _decode(hexs):
    b = bytes.fromhex(hexs) + bytes(16)
    return {'op': b[0] % NOPS, 'l1': 1 + b[1] % 12, 'l2': 1 + b[2] % 12}


REGIONS = {
    # F08b: dtw_expand_wps_slice (op 4) with a slice that is not a prefix of complete rows
    'c08_slice': lambda case, bucket, obs=None: 'dtw_expand_wps_slice' in bucket and 'hex' in case
    and _decode(case['hex'])['op'] == 4,
}
