# -*- coding: utf-8 -*-
"""C07 — parallel distance-matrix computation is schedule-independent (DESIGN.md §3 C07)."""
import ctypes
import itertools
import os

from hypothesis import strategies as st

from .. import gen, capi
from ..runner import Leg, Res
from . import c06

PROPERTY = 'C07'
NEED_C = True
RULE = ('Leg "omp" (real libgomp): Hypothesis draws a collection (2..9 series, one case in 8 with 10..24, lengths 1..6, ndim 1..2, list-of-arrays and '
        'matrix containers), a block (all forms), a settings subset (window, penalty, psi, inner distance, max_dist, max_step, max_length_diff, use_pruning) and a thread count in {1,2,3,4,7,16,33,64} (more '
        'threads than rows, oversubscription of the 16 cores); distance_matrix(parallel=True, use_c=True) is executed '
        'several times in a separate interpreter (omp_set_num_threads) and compared bitwise with parallel=False from the '
        'same interpreter. Leg "mp": multiprocessing around the Python and the C single-pair routine with pool sizes '
        '1,2,3,5,16 (os.cpu_count patched in the child before mp.Pool()), compared bitwise with serial. Leg "plan" '
        '(exhaustive): dtw_distances_prepare for every block with n <= 6/7 through ctypes: the output slots of the rows that '
        'select pairs are pairwise disjoint and tile [0, length) - the schedule-independent reason rows cannot collide. '
        'Leg "coop" (owned schedules): see native/omp_coop.c. Non-trivial: >= 2 threads/processes, n >= 3 and at least two '
        'rows with pairs.')
ASSUMPTIONS = ['the real-runtime legs sample schedules, they do not own them; instruction-level interleavings and weak-memory '
               'effects are out of reach of this technique', 'children are fresh interpreters; a child timeout is reported '
               'as inconclusive (harness error), never as a violation']

THREADS = [1, 2, 3, 4, 7, 16, 33, 64]
POOLS = [1, 2, 3, 5, 16]


@st.composite
def _case(draw, kind):
    ndim = draw(st.sampled_from([1, 1, 2]))
    n = draw(gen.count(2, 9, 24, one_in=8))
    eq = draw(st.booleans())
    L0 = draw(st.integers(1, 6))
    series = []
    for _ in range(n):
        L = L0 if eq else draw(st.integers(1, 6))
        series.append(draw(gen.series(L, L, draw(st.sampled_from(['L', 'F'])), ndim)))
    case = {'series': series, 'ndim': ndim, 'block': draw(c06.block_strategy(n)),
            'window': draw(st.one_of(st.none(), st.integers(1, 4))), 'penalty': draw(st.sampled_from([None, 0.5])),
            'inner': draw(st.sampled_from(gen.INNER_NAMES)),
            'container': draw(st.sampled_from(['matrix', 'matrix', 'matrix-F', 'list', 'list-strided'])) if eq
            else draw(st.sampled_from(['list', 'list', 'list-strided']))}
    # early-abandoning options as well: every option is decoded once and then shared by all rows / workers
    case['max_dist'] = draw(st.sampled_from([None, None, 0.5, 1.0, 2.0, 4.0]))
    case['max_step'] = draw(st.sampled_from([None, None, None, 1.0, 3.0]))
    case['max_length_diff'] = draw(st.sampled_from([None, None, None, 1, 2]))
    case['use_pruning'] = draw(st.integers(0, 3)) == 0
    m = min(len(x) for x in series) - 1
    case['psi'] = None
    if m >= 1 and draw(st.booleans()):
        if draw(st.booleans()):
            case['psi'] = draw(st.integers(1, m))
        else:
            v = [draw(st.integers(0, m)) for _ in range(4)]
            if draw(st.booleans()):
                # lopsided relaxations (some entries zero): d(a, b) != d(b, a), so any engine that reorders a pair shows
                mask = draw(st.integers(1, 14))
                v = [x if (mask >> i) & 1 else 0 for i, x in enumerate(v)]
            case['psi'] = {'form': 'tuple', 'v': v}
    if kind == 'omp':
        case['threads'] = draw(st.sampled_from(THREADS))
    else:
        case['pool'] = draw(st.sampled_from(POOLS))
        case['use_c'] = draw(st.booleans())
    return case


def _call_child(case, parallel, use_c, use_mp, **extra):
    from .. import childclient
    ch = childclient.get(nonumpy=False, key='c07-' + ('mp' if use_mp else 'omp'),
                         env_extra={'OMP_WAIT_POLICY': 'passive', 'OMP_DYNAMIC': 'false'})
    nd = case['ndim']
    fn = 'dtw.distance_matrix' if nd == 1 else 'dtw_ndim.distance_matrix'
    kw = {'block': case['block'], 'compact': True, 'parallel': parallel, 'use_c': use_c, 'use_mp': use_mp,
          'window': case['window'], 'penalty': case['penalty'], 'inner_dist': case['inner'], 'psi': case.get('psi')}
    for k in ('max_dist', 'max_step', 'max_length_diff'):
        if case.get(k) is not None:
            kw[k] = case[k]
    if case.get('use_pruning'):
        kw['use_pruning'] = True
    if nd > 1:
        kw['ndim'] = nd
    cont = {'0': {'matrix': 'ndarray', 'matrix-F': 'ndarray-F', 'list-strided': 'list-strided'}.get(case['container'],
                                                                                                  'list-ndarray')}
    return ch.call(fn, [case['series']], kw, cont, **extra)


def _common(res, case, workers):
    n = len(case['series'])
    pairs = c06.ref_pairs(case['block'], n)
    rows = len(set(r for r, c in pairs))
    res.cls('ndim=%d' % case['ndim'], 'container=' + case['container'],
            'block=' + ('none' if case['block'] is None else
                        ('rect' if (len(case['block']) > 2 and case['block'][2] is False) else 'triu')))
    if workers > max(1, rows):
        res.cls('more-workers-than-rows')
    res.nontrivial = workers >= 2 and n >= 3 and rows >= 2
    return pairs


def run_omp(case):
    res = Res()
    _common(res, case, case['threads'])
    res.cls('threads=%d' % case['threads'])
    ser = _call_child(case, False, True, False)
    if 'exc' in ser:
        res.count('serial_raised')
        return res
    par = _call_child(case, True, True, False, omp_threads=case['threads'], repeat=case.get('repeat', 4))
    if 'exc' in par:
        if 'AssertionError' in par['exc']:
            res.fail('omp:nondeterministic', 'two parallel runs with %d threads returned different results' % case['threads'])
        else:
            res.fail('omp:' + par['exc'], 'parallel run raised, serial did not')
        return res
    if par['ok'] != ser['ok']:
        k = next((i for i, (a, b) in enumerate(zip(par['ok'], ser['ok'])) if a != b), None)
        res.fail('omp:differs', 'parallel (%d threads) != serial at element %r: %r vs %r (lengths %d/%d)'
                 % (case['threads'], k, par['ok'][k] if k is not None else None, ser['ok'][k] if k is not None else None,
                    len(par['ok']), len(ser['ok'])))
    return res


def run_mp(case):
    res = Res()
    _common(res, case, case['pool'])
    res.cls('pool=%d' % case['pool'], 'use_c' if case['use_c'] else 'python')
    ser = _call_child(case, False, case['use_c'], False)
    if 'exc' in ser:
        res.count('serial_raised')
        return res
    par = _call_child(case, True, case['use_c'], True, cpu_count=case['pool'])
    if 'exc' in par:
        res.fail('mp:' + par['exc'], 'multiprocessing run raised, serial did not')
        return res
    if list(par['ok']) != list(ser['ok']):
        k = next((i for i, (a, b) in enumerate(zip(par['ok'], ser['ok'])) if a != b), None)
        res.fail('mp:differs', 'multiprocessing (pool %d, use_c=%s) != serial at element %r (lengths %d/%d)'
                 % (case['pool'], case['use_c'], k, len(par['ok']), len(ser['ok'])))
    return res


def _plan_cases(nmax):
    out = []
    for n in range(1, nmax + 1):
        out.append({'n': n, 'block': None})
        rng = [(a, b) for a in range(n) for b in range(a + 1, n + 1)]
        for (rb, re_), (cb, ce) in itertools.product(rng, rng):
            out.append({'n': n, 'block': [[rb, re_], [cb, ce]]})
            out.append({'n': n, 'block': [[rb, re_], [cb, ce], False]})
    return out


def run_plan(case):
    res = Res()
    n, block = case['n'], case['block']
    pairs = c06.ref_pairs(block, n)
    res.nontrivial = n >= 3 and len(set(r for r, c in pairs)) >= 2
    L = capi.lib('dtw_cc_omp')
    b = capi.block(c06.lib_block(block), n)
    cbs = capi.idx_p()
    rls = capi.idx_p()
    length = capi.idx_t(0)
    cs = capi.settings()
    rc = L.dtw_distances_prepare(ctypes.byref(b), n, n, ctypes.byref(cbs), ctypes.byref(rls), ctypes.byref(length),
                                 ctypes.byref(cs))
    if rc != 0:
        if pairs:
            res.fail('plan:refused', 'dtw_distances_prepare refused block %r (n=%d) that selects %d pairs'
                     % (block, n, len(pairs)))
        return res
    if length.value != len(pairs):
        res.fail('plan:length', 'plan length %d, %d pairs (block %r, n=%d)' % (length.value, len(pairs), block, n))
        return res
    triu = bool(b.triu)
    used = {}
    nrows = b.re - b.rb
    for ri in range(nrows):
        r = b.rb + ri
        if triu:
            c0, base = cbs[ri], rls[ri]
            width = None
        else:
            c0, base = b.cb, (b.ce - b.cb) * ri
        cols = list(range(c0, b.ce))
        exp_cols = [c for (rr, c) in pairs if rr == r]
        if cols != exp_cols:
            res.fail('plan:columns', 'row %d computes columns %r, expected %r (block %r, n=%d)' % (r, cols, exp_cols, block, n))
            return res
        for k, c in enumerate(cols):
            slot = base + k
            if slot in used or not (0 <= slot < length.value):
                res.fail('plan:slot', 'row %d column %d writes slot %d, %s (block %r, n=%d)'
                         % (r, c, slot, 'already used by %r' % (used.get(slot),) if slot in used else 'outside the output',
                            block, n))
                return res
            used[slot] = (r, c)
    order = [used[k] for k in sorted(used)]
    if order != pairs:
        res.fail('plan:order', 'slots are not in row-major pair order (block %r, n=%d)' % (block, n))
    return res


def legs(tier):
    nmax = 6 if tier == 'quick' else 7
    L = [Leg('omp', _case('omp'), run_omp, 1600, 24000), Leg('mp', _case('mp'), run_mp, 192, 1600),
         Leg('plan', None, run_plan, 0, 0, cases=lambda: _plan_cases(nmax))]
    try:
        from . import c07_coop
        L.extend(c07_coop.legs(tier))
    except ImportError:
        pass
    return L


def prepare(tier, stage_dir):
    try:
        from . import c07_coop
        c07_coop.prepare(tier, stage_dir)
    except ImportError:
        pass


REGIONS = {}
