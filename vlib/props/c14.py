# -*- coding: utf-8 -*-
"""C14 — k-NN subsequence search is exact despite lower bounds and early abandoning (DESIGN.md §3 C14)."""
from hypothesis import strategies as st

from .. import gen, ref
from ..runner import Leg, Res, libcall

PROPERTY = 'C14'
NEED_C = True
RULE = ('Query of length 1..5; 1..8 candidates (one case in 8: 9..24) with duplicates and exact ties (lattice values), equal/unequal lengths; k in '
        '1..N+1 or None; window, penalty, max_dist / max_value constructed between candidate distances (or absent); use_lb x '
        'use_c; ndim 1..2 (no psi: LB_Keogh is not a bound under psi). Oracle: exhaustive reference: all reference DTW '
        'distances, those above the threshold dropped, sorted; the returned distance sequence equals its first k entries, '
        'every returned (distance, idx) satisfies distance = dist[idx], indices are distinct (equal up to ties), value = '
        'distance / len(query). History leg: generated sequences of kbest_matches(k) / best_match() / align(k) (and their *_fast variants) on ONE '
        'object (k going up, down and to None); each answer must equal that of a fresh object. Non-trivial: N >= 3, k < N '
        'and pruning really happened - measured by wrapping dtw.distance / dtw.lb_keogh as seen from the search module: '
        'a candidate was skipped by the lower bound or a call received a threshold tightened below the configured one.')
ASSUMPTIONS = ['finite doubles |x| <= 1e3; thresholds are never within 1e-6 relative of a candidate distance']


@st.composite
def _base(draw):
    ndim = draw(st.sampled_from([1, 1, 1, 2]))
    regime = draw(st.sampled_from(['L', 'L', 'L', 'F']))
    q = draw(gen.series(1, 5, regime, ndim))
    n = draw(gen.count(1, 8, 24, one_in=8))
    eq = draw(st.booleans())
    L0 = draw(st.integers(1, 6))
    cands = []
    for _ in range(n):
        L = L0 if eq else draw(st.integers(1, 6))
        cands.append(draw(gen.series(L, L, regime, ndim)))
    for _ in range(draw(st.integers(0, 2))):
        if n >= 2:
            cands[draw(st.integers(0, n - 1))] = [x[:] if ndim > 1 else x for x in cands[draw(st.integers(0, n - 1))]]
    case = {'query': q, 'cands': cands, 'ndim': ndim,
            'window': draw(st.one_of(st.none(), st.integers(1, 6))), 'penalty': draw(st.sampled_from([None, None, 0.5, 1.0])),
            'use_lb': draw(st.booleans()), 'use_c': draw(st.booleans())}
    if draw(st.integers(0, 4)) == 0:
        # long series and wide windows, with the shapes DTW is made for: piecewise constant series whose time-warped
        # copies (same levels, other run lengths - DTW distance 0 within the window) are the true neighbours, among
        # shifted copies and unrelated candidates
        small = st.integers(-4, 4).map(lambda k: k / 4.0)
        level = st.sampled_from([-4.0, -1.0, 0.0, 0.0, 1.0, 3.0, 4.0, 5.0])

        def plateaus(levels, total):
            # piecewise constant series: the given levels with drawn run lengths (each >= 1) adding up to `total`
            # (cuts close to either end are favoured: a level that only occurs in the first or last one or two samples)
            cut = st.one_of(st.integers(1, total - 1), st.sampled_from([1, 2, total - 2, total - 1]))
            cuts = sorted(draw(st.lists(cut, min_size=len(levels) - 1, max_size=len(levels) - 1,
                                        unique=True))) if len(levels) > 1 else []
            out, prev = [], 0
            for lv, cut in zip(levels, cuts + [total]):
                out += [lv] * (cut - prev)
                prev = cut
            return out
        lq = draw(st.integers(18, 36))
        levels = draw(st.lists(level, min_size=1, max_size=4))
        q = plateaus(levels, lq)
        cands = []
        for _ in range(draw(st.integers(2, 5))):
            kind = draw(st.sampled_from(['warped', 'warped', 'shifted', 'random']))
            lc = draw(st.integers(18, 36))
            if kind == 'warped':
                c = plateaus(levels, lc)                    # the same levels, other run lengths: a time-warped copy
            elif kind == 'shifted':
                off = draw(st.sampled_from([0.25, -0.25, 1.0]))
                c = plateaus([v + off for v in levels], lc)
            else:
                c = draw(st.lists(small, min_size=lc, max_size=lc))
            cands.append(c)
        order = draw(st.permutations(list(range(len(cands)))))
        cands = [cands[i] for i in order]
        case.update({'query': q, 'cands': cands, 'ndim': 1, 'window': draw(st.one_of(st.none(), st.integers(17, 30))),
                     'use_lb': draw(st.sampled_from([True, True, True, False])),
                     'use_c': draw(st.sampled_from([False, False, True])), 'long': True})
    ds = sorted(set(d for d in _ref_dists(case) if d != ref.inf))
    thr = draw(gen.threshold_between(ds, exact_ok=False, allow_none=True, none_weight=3))
    case['max_dist'] = None
    case['max_value'] = None
    if thr is not None:
        if draw(st.booleans()):
            case['max_dist'] = thr
        else:
            case['max_value'] = thr / len(q)
    return case


def _ref_dists(case):
    return [ref.ref_dtw(case['query'], c, window=case['window'], penalty=case['penalty']) for c in case['cands']]


def _threshold(case):
    t = ref.inf
    if case['max_dist'] is not None:
        t = case['max_dist']
    if case['max_value'] is not None:
        t = min(t, case['max_value'] * len(case['query']))
    return t


@st.composite
def _case_single(draw):
    c = draw(_base())
    n = len(c['cands'])
    c['k'] = draw(st.one_of(st.none(), st.integers(1, n + 1)))
    return c


@st.composite
def _case_hist(draw):
    c = draw(_base())
    n = len(c['cands'])
    ks = st.one_of(st.none(), st.integers(1, n + 1))
    c['ops'] = draw(st.lists(st.one_of(st.tuples(st.just('kbest'), ks), st.tuples(st.just('best')),
                                       st.tuples(st.just('align'), ks), st.tuples(st.just('kbest'), ks),
                                       st.tuples(st.just('kbest_fast'), ks), st.tuples(st.just('best_fast')),
                                       st.tuples(st.just('align_fast'), ks)), min_size=2, max_size=7))
    c['omit_use_c'] = draw(st.booleans())
    if c['ndim'] != 1 or not draw(st.booleans()):
        # the *_fast variants (the same request answered by the C engine) only in half of the 1-D histories
        c['ops'] = [(o[0].replace('_fast', ''),) + tuple(o[1:]) for o in c['ops']]
    c['ops'] = [list(o) for o in c['ops']]
    return c


def _mk(case):
    import numpy as np
    from dtaidistance.subsequence.subsequencesearch import SubsequenceSearch
    q = np.array(case['query'], dtype=np.double)
    S = [np.array(c, dtype=np.double) for c in case['cands']]
    opts = {}
    if case['window'] is not None:
        opts['window'] = case['window']
    if case['penalty'] is not None:
        opts['penalty'] = case['penalty']
    kw = {}
    if case['max_dist'] is not None:
        kw['max_dist'] = case['max_dist']
    if case['max_value'] is not None:
        kw['max_value'] = case['max_value']
    # use_c=False is also expressed by not giving the option at all
    uc = None if (case.get('omit_use_c') and not case['use_c']) else case['use_c']
    return SubsequenceSearch(q, S, dists_options=opts, use_lb=case['use_lb'], use_c=uc, **kw)


def _answer(matches, limit):
    out = []
    for m in matches:
        out.append((float(m.distance), int(m.idx), float(m.value)))
        if len(out) > limit:
            break
    return out


def _check_container(res, tag, ms, ans, limit):
    """The result object is a sequence: what len(), indexing, negative indexing and slicing hand out must be the matches
    the iteration yields (the answer to this request - not what an earlier, larger request left in the search object)."""
    def t(m):
        return (float(m.distance), int(m.idx), float(m.value))
    if len(ans) > limit:
        return
    got, exc = libcall(lambda: {'len': len(ms), 'slice': [t(m) for m in ms[:]],
                                'index': [t(ms[i]) for i in range(len(ans))],
                                'last': t(ms[-1]) if ans else None,
                                'head': [t(m) for m in ms[:1]]})
    if exc:
        res.fail(tag + ':container:' + exc, 'len / indexing / slicing of the returned matches raised')
        return
    if got['len'] != len(ans):
        res.fail(tag + ':container:len', 'len() = %d but the iteration yields %d matches' % (got['len'], len(ans)))
    elif got['slice'] != ans:
        res.fail(tag + ':container:slice', 'matches[:] = %r, iteration %r' % (got['slice'], ans))
    elif got['index'] != ans:
        res.fail(tag + ':container:index', '[matches[i]] = %r, iteration %r' % (got['index'], ans))
    elif ans and got['last'] != ans[-1]:
        res.fail(tag + ':container:last', 'matches[-1] = %r, last match of the iteration %r' % (got['last'], ans[-1]))
    elif got['head'] != ans[:1]:
        res.fail(tag + ':container:head', 'matches[:1] = %r, iteration %r' % (got['head'], ans[:1]))


def _check_answer(res, tag, case, k, ans, dists):
    n = len(case['cands'])
    thr = _threshold(case)
    kept = sorted(d for d in dists if d != ref.inf and d <= thr)
    exp = kept if k is None else kept[:k]
    fin = [a for a in ans if a[0] != ref.inf]
    if k is not None and len(ans) > k:
        res.fail(tag + ':count', '%d matches returned for k=%r' % (len(ans), k))
        return
    if any(a[0] == ref.inf for a in ans) and k is not None:
        res.fail(tag + ':inf-match', 'a match with infinite distance was returned for k=%r: %r' % (k, ans))
        return
    if len(fin) != len(exp) or not all(ref.close(a[0], e) for a, e in zip(fin, exp)):
        res.fail(tag + ':distances', 'k=%r: returned distances %r, exhaustive search gives %r (threshold %r)'
                 % (k, [a[0] for a in ans], exp, thr))
        return
    idxs = [a[1] for a in fin]
    if len(set(idxs)) != len(idxs) or any(not (0 <= i < n) for i in idxs):
        res.fail(tag + ':indices', 'indices %r are not distinct valid candidates' % idxs)
        return
    for d, i, v in fin:
        if not ref.close(d, dists[i]):
            res.fail(tag + ':index-distance', 'match (distance %r, idx %d) but the distance to candidate %d is %r'
                     % (d, i, i, dists[i]))
            return
        if not ref.close(v, d / len(case['query'])):
            res.fail(tag + ':value', 'value %r != distance/len(query) %r' % (v, d / len(case['query'])))
            return
    if k is None and any(a[0] != ref.inf for a in ans[len(fin):]):
        res.fail(tag + ':order', 'finite distances after infinite ones: %r' % ([a[0] for a in ans],))


class _Spy:
    """Counts what the search module hands to dtw.distance / dtw.lb_keogh (measured pruning activity)."""

    def __init__(self, case):
        from dtaidistance.subsequence import subsequencesearch as ss
        self.ss = ss
        self.case = case
        self.dist_calls = 0
        self.lb_calls = 0
        self.tightened = 0
        self.orig = (ss.dtw.distance, ss.dtw.lb_keogh, ss.dtw_ndim.distance)
        thr = _threshold(case)
        spy = self

        def distance(*a, **kw):
            spy.dist_calls += 1
            md = kw.get('max_dist')
            if md is not None and md < thr:
                spy.tightened += 1
            return spy.orig[0](*a, **kw)

        def ndist(*a, **kw):
            spy.dist_calls += 1
            md = kw.get('max_dist')
            if md is not None and md < thr:
                spy.tightened += 1
            return spy.orig[2](*a, **kw)

        def lb(*a, **kw):
            spy.lb_calls += 1
            return spy.orig[1](*a, **kw)
        self.wrappers = (distance, lb, ndist)

    def __enter__(self):
        # a local namespace object: the library module itself is left untouched
        class NS:
            pass
        d, l, nd = self.wrappers
        self.ns_dtw = type('dtwproxy', (), {'distance': staticmethod(d), 'lb_keogh': staticmethod(l)})
        self.ns_ndim = type('ndimproxy', (), {'distance': staticmethod(nd)})
        self.saved = (self.ss.dtw, self.ss.dtw_ndim)
        self.ss.dtw, self.ss.dtw_ndim = self.ns_dtw, self.ns_ndim
        return self

    def __exit__(self, *a):
        self.ss.dtw, self.ss.dtw_ndim = self.saved


def run_single(case):
    res = Res()
    n = len(case['cands'])
    k = case['k']
    dists = _ref_dists(case)
    res.cls('ndim=%d' % case['ndim'], 'use_lb' if case['use_lb'] else 'no-lb', 'use_c' if case['use_c'] else 'python',
            'k=None' if k is None else 'k', 'threshold' if _threshold(case) != ref.inf else 'no-threshold')
    if len(set(dists)) < len(dists):
        res.cls('ties')
    if case.get('long'):
        res.cls('long')
    ss, exc = libcall(_mk, case)
    if exc:
        res.fail('init:' + exc, 'constructor raised')
        return res
    with _Spy(case) as spy:
        ms, exc = libcall(ss.kbest_matches, k)
        ans = None
        if exc is None:
            ans, exc = libcall(_answer, ms, n + 2)
    if exc:
        res.fail('kbest:' + exc, 'kbest_matches(%r) raised' % (k,))
        return res
    _check_answer(res, 'kbest', case, k, ans, dists)
    _check_container(res, 'kbest', ms, ans, n + 1)
    if k is not None and len(ans) <= n + 1:
        # the positional accessor of the same answer
        got, exc = libcall(lambda: [tuple(ss.get_ith_value(i)) for i in range(len(ans))])
        if exc:
            res.fail('ith:' + exc, 'get_ith_value raised after kbest_matches(%r)' % (k,))
        elif [(float(d), int(i)) for d, i in got] != [(a[0], a[1]) for a in ans]:
            res.fail('ith:differs', 'get_ith_value(0..%d) = %r, the matches are %r' % (len(ans) - 1, got, ans))
    skipped = (spy.lb_calls - spy.dist_calls) if case['use_lb'] and case['ndim'] == 1 else 0
    res.count('lb_skipped', max(0, skipped))
    res.count('tightened_calls', spy.tightened)
    res.nontrivial = n >= 3 and (k is not None and k < n) and (skipped > 0 or spy.tightened > 0)
    # best_match on a fresh object
    thr = _threshold(case)
    if any(d != ref.inf and d <= thr for d in dists):
        ss2, _ = libcall(_mk, case)
        m, exc = libcall(ss2.best_match)
        if exc:
            res.fail('best:' + exc, 'best_match raised')
        else:
            a, exc = libcall(_answer, [m], 2)
            if exc:
                res.fail('best.props:' + exc, 'best_match properties raised')
            else:
                _check_answer(res, 'best', case, 1, a, dists)
    return res


def run_hist(case):
    res = Res()
    n = len(case['cands'])
    dists = _ref_dists(case)
    thr = _threshold(case)
    ss, exc = libcall(_mk, case)
    if exc:
        res.fail('hist:init:' + exc, 'constructor raised')
        return res
    res.cls('use_lb' if case['use_lb'] else 'no-lb', 'use_c' if case['use_c'] else 'python')
    ks = []
    for op in case['ops']:
        fresh, _ = libcall(_mk, case)
        if op[0] in ('kbest', 'kbest_fast'):
            k = op[1]
            holder = []
            meth = ss.kbest_matches if op[0] == 'kbest' else ss.kbest_matches_fast
            got, exc = libcall(lambda: _answer(holder.append(meth(k)) or holder[0], n + 2))
            exp, exc2 = libcall(lambda: _answer(fresh.kbest_matches(k), n + 2))
            if exc is None:
                _check_container(res, 'hist:kbest', holder[0], got, n + 1)
        elif op[0] in ('best', 'best_fast'):
            k = 1
            if not any(d != ref.inf and d <= thr for d in dists):
                continue
            bm = ss.best_match if op[0] == 'best' else ss.best_match_fast
            got, exc = libcall(lambda: _answer([bm()], 2))
            exp, exc2 = libcall(lambda: _answer([fresh.best_match()], 2))
        else:
            k = op[1]
            al = ss.align if op[0] == 'align' else ss.align_fast
            got, exc = libcall(lambda: [(float(d), int(i)) for d, i in al(k)])
            exp, exc2 = libcall(lambda: [(float(d), int(i)) for d, i in fresh.align(k)])
        ks.append(k)
        if exc:
            res.fail('hist:%s:%s' % (op[0], exc), '%r raised on the shared object (history %r)' % (op, case['ops']))
            continue
        if exc2:
            continue
        # equal up to ties: compare distance sequences exactly and require valid indices
        gd = [g[0] for g in got]
        ed = [e[0] for e in exp]
        if len(gd) != len(ed) or not all(ref.close(a, b) for a, b in zip(gd, ed)):
            res.fail('hist:differs', '%r after %r: shared object %r, fresh object %r' % (op, ks[:-1], got, exp))
            continue
        if op[0] in ('kbest', 'best', 'kbest_fast', 'best_fast'):
            _check_answer(res, 'hist:' + op[0], case, k, got, dists)
    kk = [n + 2 if k is None else k for k in ks]
    res.nontrivial = n >= 3 and len(ks) >= 2 and any(b < a for a, b in zip(kk, kk[1:]))
    return res


def legs(tier):
    return [Leg('search', _case_single(), run_single, 10000, 100000, max_shrink_buckets=8),
            Leg('history', _case_hist(), run_hist, 3000, 30000)]


REGIONS = {}
