# -*- coding: utf-8 -*-
"""C10 — identity, non-negativity, symmetry, option monotonicity (DESIGN.md §3 C10)."""
from hypothesis import strategies as st

from .. import gen, ref
from ..runner import Leg, Res, libcall

PROPERTY = 'C10'
NEED_C = True
RULE = ('Pairs (equal and unequal lengths, ndim 1..2) x base settings x a comparable variation of each option '
        '(window w -> w+k, psi componentwise larger, penalty larger, max_step larger), engines Python and C: distance, '
        'distance_fast and the distance returned by warping_paths / warping_paths_fast (full, compact; the C ones on '
        'psi-free cases only). Relations '
        'between calls, independent of any reference: d(s,s)=0, d>=0, d(s1,s2;psi=(a,b,c,d)) = d(s2,s1;psi=(c,d,a,b)), '
        'monotonicity in window/psi/max_step/penalty (inf ordered last, slack 1e-9), window=1 on equal lengths = ED, '
        'square distance matrix symmetric with zero diagonal and entry (a,b) = d(s[b],s[a]), for a list of four series and for the same series cut to a common length and handed over as one 2-D / 3-D array (under the drawn window and under window 1, where entries are also the Euclidean distance). Non-trivial: lengths >= 2 '
        'and (a related pair of results differs strictly, or the lengths are unequal).'
        ' The swap law is also stated through the matrix routine: [s1,s2] under psi (a,b,c,d) and [s2,s1] under (c,d,a,b) have the same entry, equal to the single-pair distance (serial engines; one case in 8 also the multiprocessing and OpenMP engines in a separate interpreter).')
ASSUMPTIONS = ['finite doubles |x| <= 1e3, lengths <= 12', 'relative slack 1e-9 on every (in)equality']


@st.composite
def _case(draw, max_len):
    ndim = draw(st.sampled_from([1, 1, 1, 2]))
    case = draw(gen.dtw_case(max_len=max_len, ndim=ndim, inners=gen.INNER_NAMES, with_mld=False))
    l1, l2 = len(case['s1']), len(case['s2'])
    case['ndim'] = ndim
    case['s3'] = draw(gen.series(1, max_len, 'L', ndim))
    case['s4'] = draw(gen.series(1, max_len, 'L', ndim))
    case['dw'] = draw(st.integers(1, 3))
    p = gen.psi4(case['psi'])
    g = (draw(st.integers(p[0], l1)), draw(st.integers(p[1], l1)), draw(st.integers(p[2], l2)),
         draw(st.integers(p[3], l2)))
    # grown psi must stay non-degenerate: shrink back towards p where needed
    g = list(g)
    while ref.degenerate_psi(l1, l2, g) and g != list(p):
        for k in range(4):
            if g[k] > p[k]:
                g[k] -= 1
                break
    case['psi_grown'] = g
    case['pen_grown'] = (case['penalty'] or 0) + draw(st.sampled_from([0.25, 0.5, 1.0, 3.0]))
    case['ms_factor'] = draw(st.sampled_from([1.25, 2.0, 10.0]))
    case['par_routes'] = draw(st.integers(0, 7)) == 0
    return case


def _engines(case):
    import numpy as np
    from dtaidistance import dtw
    nd = case['ndim']

    def conv(s, eng):
        if eng == 'c' or nd > 1:
            return np.array(s, dtype=np.double)
        return list(s)

    def mk(eng):
        def f(s1, s2, **kw):
            if eng == 'c':
                return dtw.distance_fast(conv(s1, eng), conv(s2, eng), use_ndim=(nd > 1), **kw)
            return dtw.distance(conv(s1, eng), conv(s2, eng), use_ndim=(nd > 1), use_c=False, **kw)
        return f

    def mkw(eng, compact):
        # the distance returned by the accumulated-cost routines is the same quantity, computed by other kernels
        def f(s1, s2, **kw):
            if eng == 'c':
                return dtw.warping_paths_fast(conv(s1, eng), conv(s2, eng), use_ndim=(nd > 1), compact=compact, **kw)[0]
            return dtw.warping_paths(conv(s1, eng), conv(s2, eng), use_ndim=(nd > 1), use_c=False, **kw)[0]
        return f
    out = [('py', mk('py')), ('c', mk('c')), ('py-wps', mkw('py', False))]
    # C warping-paths kernels: psi-free cases only (their psi handling beyond the band is the open finding F04a of C04)
    if not any(gen.psi4(case['psi'])):
        out += [('c-wps', mkw('c', False)), ('c-wps-compact', mkw('c', True))]
    return out


def run(case):
    import numpy as np
    from dtaidistance import dtw, dtw_ndim, ed
    res = Res()
    s1, s2, nd = case['s1'], case['s2'], case['ndim']
    l1, l2 = len(s1), len(s2)
    p = gen.psi4(case['psi'])
    base = {'window': case['window'], 'penalty': case['penalty'], 'psi': gen.psi_to_lib(case['psi']),
            'max_step': case['max_step'], 'inner_dist': case['inner']}
    res.cls(*gen.classes_dtw(case))
    res.cls('ndim=%d' % nd)
    strict = False
    for eng, f in _engines(case):
        def call(tag, a, b, **over):
            kw = dict(base)
            kw.update(over)
            v, exc = libcall(f, a, b, **kw)
            if exc:
                res.fail('%s:%s:%s' % (eng, tag, exc), 'raised')
                return None
            return float(v)
        d = call('base', s1, s2)
        if d is None:
            continue
        if not (d >= 0):
            res.fail(eng + ':negative', 'distance %r < 0' % d)
        # identity (the psi tuple must fit both arguments: use the smaller components)
        for s, lab in ((s1, 's1'), (s2, 's2')):
            n = len(s)
            q = tuple(min(x, n) for x in p)
            if eng.startswith('c-wps'):
                q = (0, 0, 0, 0)
            while ref.degenerate_psi(n, n, q) and any(q):
                q = tuple(max(0, x - 1) for x in q)
            v = call('identity', s, s, psi=q)
            if v is not None and not ref.close(v, 0.0) and v != 0.0:
                res.fail(eng + ':identity', 'd(%s,%s)=%r under %r' % (lab, lab, v, base))
        # symmetry
        v = call('symmetry', s2, s1, psi=(p[2], p[3], p[0], p[1]))
        if v is not None and not ref.close(v, d):
            res.fail(eng + ':symmetry', 'd(s1,s2;psi=%r)=%r but d(s2,s1;psi swapped)=%r' % (p, d, v))
        # monotone in window
        if case['window'] is not None:
            v = call('window', s1, s2, window=case['window'] + case['dw'])
            if v is not None:
                if not ref.leq(v, d):
                    res.fail(eng + ':mono-window', 'window %r -> %r but distance %r -> %r'
                             % (case['window'], case['window'] + case['dw'], d, v))
                strict = strict or v != d
        # monotone in psi
        if list(case['psi_grown']) != list(p) and not eng.startswith('c-wps'):
            v = call('psi', s1, s2, psi=tuple(case['psi_grown']))
            if v is not None:
                if not ref.leq(v, d):
                    res.fail(eng + ':mono-psi', 'psi %r -> %r but distance %r -> %r' % (p, case['psi_grown'], d, v))
                strict = strict or v != d
        # monotone in penalty
        v = call('penalty', s1, s2, penalty=case['pen_grown'])
        if v is not None:
            if not ref.leq(d, v):
                res.fail(eng + ':mono-penalty', 'penalty %r -> %r but distance %r -> %r'
                         % (case['penalty'], case['pen_grown'], d, v))
            strict = strict or v != d
        # monotone in max_step
        if case['max_step']:
            v = call('max_step', s1, s2, max_step=case['max_step'] * case['ms_factor'])
            if v is not None:
                if not ref.leq(v, d):
                    res.fail(eng + ':mono-max_step', 'max_step %r -> %r but distance %r -> %r'
                             % (case['max_step'], case['max_step'] * case['ms_factor'], d, v))
                strict = strict or v != d
            v = call('max_step-off', s1, s2, max_step=None)
            if v is not None and not ref.leq(v, d):
                res.fail(eng + ':mono-max_step', 'max_step %r -> None but distance %r -> %r' % (case['max_step'], d, v))
        # window = 1 on equal lengths is the Euclidean distance
        if l1 == l2:
            v = call('window1', s1, s2, window=1, max_step=None)
            e, exc = libcall(ed.distance, np.array(s1, dtype=np.double) if nd > 1 else list(s1),
                             np.array(s2, dtype=np.double) if nd > 1 else list(s2), inner_dist=case['inner'],
                             use_ndim=(nd > 1))
            if v is not None and exc is None and not ref.close(v, e):
                res.fail(eng + ':window1-ed', 'window=1 distance %r != ed.distance %r' % (v, e))
    # distance matrix symmetric, zero diagonal, entry (a,b) = d(s[b], s[a])  (psi-free, the matrix has one psi for all)
    # four series ordered by length, shortest first (the last pairs are the largest problems); mirroring the upper
    # triangle is only valid if every entry is the distance of its own pair, whatever was computed before it
    S = sorted([s1, s2, case['s3'], case.get('s4', case['s3'])], key=len)
    mkw = {'window': case['window'], 'penalty': case['penalty'], 'max_step': case['max_step'],
           'inner_dist': case['inner']}
    for eng in ('py', 'c'):
        if nd == 1:
            ser = [list(x) for x in S] if eng == 'py' else [np.array(x, dtype=np.double) for x in S]
            M, exc = libcall(dtw.distance_matrix, ser, use_c=(eng == 'c'), parallel=False, **mkw)
        else:
            ser = [np.array(x, dtype=np.double) for x in S]
            M, exc = libcall(dtw_ndim.distance_matrix, ser, ndim=nd, use_c=(eng == 'c'), parallel=False, **mkw)
        if exc:
            res.fail('%s:matrix:%s' % (eng, exc), 'distance_matrix raised')
            continue
        M = np.asarray(M)
        f = dict(_engines(case))[eng]
        for a in range(len(S)):
            if M[a, a] != 0:
                res.fail(eng + ':matrix-diagonal', 'M[%d,%d]=%r' % (a, a, M[a, a]))
            for b in range(len(S)):
                if a == b:
                    continue
                if not ref.close(M[a, b], M[b, a]):
                    res.fail(eng + ':matrix-symmetric', 'M[%d,%d]=%r M[%d,%d]=%r' % (a, b, M[a, b], b, a, M[b, a]))
                v, exc = libcall(f, S[b], S[a], **mkw)
                if exc is None and not ref.close(M[a, b], v):
                    res.fail(eng + ':matrix-entry', 'M[%d,%d]=%r but d(s[%d],s[%d])=%r' % (a, b, M[a, b], b, a, v))
    # the swap law through the matrix routines: [s1, s2] under psi (a,b,c,d) and [s2, s1] under (c,d,a,b) have the same single
    # entry, and it is the single-pair distance - for every engine of the matrix routine (serial; in one case in 8 also the
    # multiprocessing and OpenMP engines, in a separate interpreter)
    pl = gen.psi_to_lib(case['psi'])
    if isinstance(pl, (tuple, list)):
        sw = type(pl)([pl[2], pl[3], pl[0], pl[1]])
    else:
        sw = pl
    skw = dict(mkw)
    routes = [('py', False, False, False), ('c', True, False, False)]
    if case.get('par_routes'):
        res.cls('matrix-swap:mp+omp-engines')
        routes += [('py-mp', False, True, True), ('c-mp', True, True, True), ('c-omp', True, True, False)]
    for name, use_c, par, mp in routes:
        vals = []
        for A, B, P in ((s1, s2, pl), (s2, s1, sw)):
            if not par:
                ser = [np.array(x, dtype=np.double) for x in (A, B)] if (use_c or nd > 1) else [list(A), list(B)]
                fn = dtw.distance_matrix if nd == 1 else dtw_ndim.distance_matrix
                extra = {} if nd == 1 else {'ndim': nd}
                M, exc = libcall(fn, ser, use_c=use_c, parallel=False, compact=True, psi=P, **skw, **extra)
                if exc:
                    res.fail('%s:matrix-swap:%s' % (name, exc), 'distance_matrix raised')
                    vals = None
                    break
                vals.append(float(M[0]))
            else:
                from .. import childclient
                ch = childclient.get(nonumpy=False, key='c10-par', env_extra={'OMP_WAIT_POLICY': 'passive'})
                kw = {'compact': True, 'parallel': True, 'use_c': use_c, 'use_mp': mp, 'psi': [int(x) for x in P] if isinstance(P, (tuple, list)) else (None if P is None else int(P))}
                kw.update(skw)
                if nd > 1:
                    kw['ndim'] = nd
                r = ch.call('dtw.distance_matrix' if nd == 1 else 'dtw_ndim.distance_matrix', [[A, B]], kw,
                            {'0': 'list-ndarray'}, cpu_count=2, omp_threads=2)
                if 'exc' in r:
                    res.fail('%s:matrix-swap:%s' % (name, r['exc']), 'distance_matrix raised')
                    vals = None
                    break
                vals.append(float(r['ok'][0]))
        if vals is None:
            continue
        if not ref.close(vals[0], vals[1]):
            res.fail(name + ':matrix-swap', 'distance_matrix([s1,s2], psi=%r)=%r but distance_matrix([s2,s1], psi=%r)=%r'
                     % (pl, vals[0], sw, vals[1]))
        f = dict(_engines(case))['c' if use_c else 'py']
        v, exc = libcall(f, s1, s2, psi=pl, **skw)
        if exc is None and not ref.close(vals[0], float(v)):
            res.fail(name + ':matrix-swap-entry', 'distance_matrix([s1,s2], psi=%r)=%r, single-pair distance %r' % (pl, vals[0], v))
    # the same laws when the collection is ONE array (2-D, or 3-D for n-D points): the four series cut to a common length,
    # under the drawn window and under window 1 (where each entry is also the Euclidean distance unless max_step forbids
    # a diagonal pair, in which case it is infinite)
    m = min(len(x) for x in S)
    T = [x[:m] for x in S]
    for eng in ('py', 'c'):
        f = dict(_engines(case))[eng]
        for w in (case['window'], 1):
            akw = dict(mkw, window=w)
            arr = np.array(T, dtype=np.double)
            if nd == 1:
                M, exc = libcall(dtw.distance_matrix, arr, use_c=(eng == 'c'), parallel=False, **akw)
            else:
                M, exc = libcall(dtw_ndim.distance_matrix, arr, ndim=nd, use_c=(eng == 'c'), parallel=False, **akw)
            if exc:
                res.fail('%s:matrix[array]:%s' % (eng, exc), 'distance_matrix on one array raised')
                continue
            M = np.asarray(M)
            for a in range(len(T)):
                for b in range(len(T)):
                    if a == b:
                        if M[a, a] != 0:
                            res.fail(eng + ':matrix[array]-diagonal', 'M[%d,%d]=%r' % (a, a, M[a, a]))
                        continue
                    if not ref.close(M[a, b], M[b, a]):
                        res.fail(eng + ':matrix[array]-symmetric', 'M[%d,%d]=%r M[%d,%d]=%r (window=%r)'
                                 % (a, b, M[a, b], b, a, M[b, a], w))
                    v, exc = libcall(f, T[b], T[a], **akw)
                    if exc is None and not ref.close(M[a, b], v):
                        res.fail(eng + ':matrix[array]-entry', 'window=%r: M[%d,%d]=%r but d(s[%d],s[%d])=%r'
                                 % (w, a, b, M[a, b], b, a, v))
                    if w == 1 and case['max_step'] is None:
                        e, exc = libcall(ed.distance, np.array(T[a], dtype=np.double) if nd > 1 else list(T[a]),
                                         np.array(T[b], dtype=np.double) if nd > 1 else list(T[b]),
                                         inner_dist=case['inner'], use_ndim=(nd > 1))
                        if exc is None and not ref.close(M[a, b], e):
                            res.fail(eng + ':matrix[array]-window1-ed', 'window=1: M[%d,%d]=%r, ed.distance %r'
                                     % (a, b, M[a, b], e))
    res.nontrivial = l1 >= 2 and l2 >= 2 and (strict or l1 != l2)
    if strict:
        res.cls('strict-relation')
    return res


def legs(tier):
    ml = 8 if tier == 'quick' else 12
    a = Leg('laws', _case(ml), run, 12000, 120000, max_shrink_buckets=6)
    return [a]


REGIONS = {}
