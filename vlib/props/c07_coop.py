# -*- coding: utf-8 -*-
"""C07 leg 1 — owned schedules: the six OpenMP distance-matrix loops under the cooperative GOMP runtime
(native/omp_coop.c, DESIGN.md §2.8b).  Thread count, chunk sizes and the basic-block interleaving are Hypothesis
draws; every *_parallel function is compared bitwise with its serial counterpart from the same object files."""
import atexit
import hashlib
import os
import re
import shutil
import subprocess

from hypothesis import strategies as st

from .. import gen, stage
from ..runner import Leg, Res
from . import c06

ROOT = os.path.dirname(os.path.dirname(os.path.dirname(os.path.abspath(__file__))))
_procs = {}


def _native_dir():
    c_hash, _ = stage.hashes()
    src = os.path.join(ROOT, 'native', 'omp_coop.c')
    hh = hashlib.sha1(open(src, 'rb').read()).hexdigest()[:8]
    return os.path.join(stage.CACHE, 'native', 'coop-%s-%s' % (c_hash, hh)), src


def prepare(tier, stage_dir):
    d, src = _native_dir()
    cs = stage.csrc_dir()
    with stage._Lock('native.lock'):
        if os.path.exists(os.path.join(d, '.ok')):
            return d
        tmp = d + '.tmp%d' % os.getpid()
        shutil.rmtree(tmp, ignore_errors=True)
        os.makedirs(tmp)
        objs = []
        for f in ('dd_dtw', 'dd_ed', 'dd_dtw_openmp', 'dd_globals'):
            o = os.path.join(tmp, f + '.o')
            cmd = ['gcc', '-c', '-fopenmp', '-O1', '-g', '-fsanitize-coverage=trace-pc', '-DNDEBUG', '-w', '-I' + cs,
                   os.path.join(cs, f + '.c'), '-o', o]
            r = subprocess.run(cmd, stdout=subprocess.PIPE, stderr=subprocess.STDOUT, text=True)
            if r.returncode != 0:
                raise RuntimeError('coop build failed: %s\n%s' % (' '.join(cmd), r.stdout[-2000:]))
            objs.append(o)
        co = os.path.join(tmp, 'coop.o')
        for cmd in (['gcc', '-O1', '-g', '-w', '-I' + cs, '-c', src, '-o', co],
                    ['gcc'] + objs + [co, '-lm', '-o', os.path.join(tmp, 'omp_coop')]):
            r = subprocess.run(cmd, stdout=subprocess.PIPE, stderr=subprocess.STDOUT, text=True)
            if r.returncode != 0:
                raise RuntimeError('coop build failed (a GOMP entry point the runtime does not implement?): %s\n%s'
                                   % (' '.join(cmd), r.stdout[-2000:]))
        open(os.path.join(tmp, '.ok'), 'w').close()
        shutil.rmtree(d, ignore_errors=True)
        os.makedirs(os.path.dirname(d), exist_ok=True)
        os.rename(tmp, d)
    return d


def _proc():
    k = os.getpid()
    p = _procs.get(k)
    if p is None or p.poll() is not None:
        d, _ = _native_dir()
        p = subprocess.Popen([os.path.join(d, 'omp_coop')], stdin=subprocess.PIPE, stdout=subprocess.PIPE,
                             stderr=subprocess.DEVNULL, text=True, bufsize=1)
        _procs[k] = p
        atexit.register(lambda: p.poll() is None and p.kill())
    return p


@st.composite
def _case(draw):
    ndim = draw(st.sampled_from([1, 1, 2]))
    n = draw(gen.count(3, 9, 20, one_in=8))
    eq = draw(st.booleans())
    L0 = draw(st.integers(1, 6))
    series = []
    for _ in range(n):
        L = L0 if eq else draw(st.integers(1, 6))
        series.append(draw(gen.series(L, L, 'L', ndim)))
    m = min(len(x) for x in series) - 1
    return {'series': series, 'ndim': ndim, 'eq': eq, 'block': draw(c06.block_strategy(n)),
            'window': draw(st.sampled_from([0, 0, 1, 2, 3])), 'penalty': draw(st.sampled_from([0, 0.5])),
            'psi': draw(st.integers(0, m)) if m >= 1 and draw(st.booleans()) else 0,
            'inner': draw(st.sampled_from([0, 1])),
            'max_dist': draw(st.sampled_from([0, 0, 0.5, 1.0, 2.0, 4.0])), 'max_step': draw(st.sampled_from([0, 0, 0, 1.0, 3.0])),
            'max_length_diff': draw(st.sampled_from([0, 0, 0, 1, 2])), 'use_pruning': draw(st.sampled_from([0, 0, 0, 1])),
            'threads': draw(st.one_of(st.integers(1, 8), st.integers(2, 8), st.integers(1, 64))),
            'chunks': draw(st.lists(st.sampled_from([1, 1, 1, 2, 3, 4]), min_size=1, max_size=6)),
            'preempt': draw(st.lists(st.tuples(st.one_of(st.integers(1, 12), st.integers(1, 60)), st.integers(0, 63)),
                                     min_size=0 if draw(st.integers(0, 7)) == 0 else 1, max_size=24))}


def encode(case):
    S = case['series']
    b = case['block']
    parts = [len(S), case['ndim'], 1 if case['eq'] else 0, 0 if b is None else 1]
    if b is None:
        parts += [0, 0, 0, 0, 1]
    else:
        parts += [b[0][0], b[0][1], b[1][0], b[1][1], 0 if (len(b) > 2 and b[2] is False) else 1]
    parts += [case['window'], case['penalty'], case['psi'], case['inner'], float(case.get('max_dist', 0)),
              float(case.get('max_step', 0)), case.get('max_length_diff', 0), case.get('use_pruning', 0), case['threads']]
    parts += [len(case['chunks'])] + list(case['chunks'])
    parts += [len(case['preempt'])]
    for r, t in case['preempt']:
        parts += [r, t]
    parts += [len(s) for s in S]
    for s in S:
        for x in s:
            parts += list(x) if isinstance(x, (list, tuple)) else [x]
    return ' '.join(repr(float(v)) if isinstance(v, float) else str(v) for v in parts)


def run(case):
    res = Res()
    p = _proc()
    try:
        p.stdin.write(encode(case) + '\n')
        p.stdin.flush()
        line = p.stdout.readline()
    except (BrokenPipeError, OSError):
        line = ''
    n = len(case['series'])
    pairs = c06.ref_pairs(case['block'], n)
    rows = len(set(r for r, c in pairs))
    res.cls('ndim=%d' % case['ndim'], 'eq' if case['eq'] else 'uneq',
            'threads>rows' if case['threads'] > max(1, rows) else 'threads<=rows',
            'preempting' if case['preempt'] else 'run-to-completion')
    if not line:
        rc = p.poll()
        res.fail('coop:crash', 'the cooperative run died (exit %r): heap corruption / invalid access under this schedule' % rc)
        return res
    m = re.match(r'OK threads_used=(\d+) preempts=(\d+) preempts_in_row=(\d+) chunks=(\d+)', line)
    if m:
        used, pre, prerow = int(m.group(1)), int(m.group(2)), int(m.group(3))
        res.count('preemptions', pre)
        res.count('preemptions_in_row', prerow)
        res.count('chunks', int(m.group(4)))
        res.nontrivial = used >= 2 and prerow >= 1 and n >= 3
        if used >= 2:
            res.cls('>=2-threads-worked')
        return res
    kind = line.split()[0]
    fn = re.search(r'fn=(\w+)', line)
    res.fail('coop:%s:%s' % (kind.lower(), fn.group(1) if fn else '?'), line.strip())
    return res


def legs(tier):
    return [Leg('coop', _case(), run, 8000, 320000)]
