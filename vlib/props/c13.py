# -*- coding: utf-8 -*-
"""C13 — subsequence alignment: matching function = best DTW over all start points (DESIGN.md §3 C13)."""
from hypothesis import strategies as st

from .. import gen, ref
from ..runner import Leg, Res, libcall

PROPERTY = 'C13'
NEED_C = True
RULE = ('Query of length 1..5, series of length 1..10 (also shorter than the query), penalty in {0, 0.1, 0.5, 1, float}, ndim '
        '1..2, both engines; iterator parameters k in {1..6, None}, overlap 0..3, minlength in {None,1,2,3}, maxlength in '
        '{None, 2..8}. Oracle: matching_function()[e] = min over b <= e of the reference DTW(query, series[b..e], penalty) / '
        'len(query) (O(n^2) reference calls); best_match: segment, path (C05 predicate restricted to columns b..e) and '
        'value/distance consistent; k-best: distinct end points, non-decreasing values, segment lengths within the limits, '
        'with overlap=0 two segments share at most one sample; Python and C matching functions equal. History leg: '
        'generated sequences of open-iterator / advance / best_match / matching_function / align operations on ONE object; '
        'every yielded match must equal what a fresh alignment object yields at the same position and the object\'s '
        'matching function and matrix must stay bitwise unchanged. Non-trivial: len(series) > len(query) >= 2 and the best '
        'start is > 0 for some end point; histories: >= 2 iterators interleaved.'
        ' Further routes: get_match and matching_function_segment/_endpoint/_startpoint/_bestpath for every end point (segment and path realise the value there), the *_fast spellings, best_matches(max_rangefactor in {1,1.5,2,3,10,1000}) and best_matches_knee(alpha): a prefix of the k=None sequence; range-factor rule: yielded values <= first*factor and the next one beyond it.')
ASSUMPTIONS = ['finite doubles |x| <= 1e3; default inner distance (the class offers no other)']


@st.composite
def _base(draw):
    ndim = draw(st.sampled_from([1, 1, 1, 2]))
    regime = draw(st.sampled_from(['L', 'L', 'F']))
    q = draw(gen.series(1, 5, regime, ndim))
    s = draw(gen.series(1, 10, regime, ndim))
    if draw(st.integers(0, 2)) == 0 and len(s) > len(q):
        # plant the query inside the series so that good matches with a late start exist
        pos = draw(st.integers(0, len(s) - len(q)))
        s = s[:pos] + [x[:] if ndim > 1 else x for x in q] + s[pos + len(q):]
    pen = draw(st.sampled_from([0, 0.1, 0.5, 1.0, None])) if regime == 'L' else \
        draw(st.one_of(st.sampled_from([0, 0.1]), st.floats(0.01, 5.0, allow_nan=False)))
    lay = st.sampled_from(['C', 'C', 'F', 'strided', 'Tview'])
    return {'query': q, 'series': s, 'ndim': ndim, 'penalty': pen, 'layout_q': draw(lay), 'layout_s': draw(lay)}


ITER = st.fixed_dictionaries({'k': st.one_of(st.none(), st.integers(1, 6)), 'overlap': st.integers(0, 3),
                              'minlength': st.sampled_from([None, 1, 2, 2, 3]),
                              'maxlength': st.one_of(st.none(), st.integers(2, 8))})


@st.composite
def _case_align(draw):
    c = draw(_base())
    c['iter'] = draw(ITER)
    c['rangefactor'] = draw(st.sampled_from([1, 1.5, 2, 2, 3, 10, 1000]))
    c['alpha'] = draw(st.sampled_from([0.1, 0.3, 0.3, 0.9]))
    return c


@st.composite
def _case_hist(draw):
    c = draw(_base())
    c['use_c'] = draw(st.booleans())
    ops = []
    nopen = 0
    for _ in range(draw(st.integers(2, 14))):
        kind = draw(st.sampled_from(['open', 'next', 'next', 'next', 'best', 'mf', 'align']))
        if kind == 'open' or (kind == 'next' and nopen == 0):
            ops.append(['open', draw(ITER)])
            nopen += 1
        elif kind == 'next':
            ops.append(['next', draw(st.integers(0, nopen - 1))])
        else:
            ops.append([kind])
    c['ops'] = ops
    return c


def _layout(a, kind):
    """The same values in another memory layout (the result may depend on the numeric content only)."""
    import numpy as np
    if kind in (None, 'C'):
        return a
    if kind == 'F':
        return np.asfortranarray(a)
    if kind == 'Tview' and a.ndim == 2:
        return np.ascontiguousarray(a.T).T            # channel-first data seen through .T
    big = np.full(tuple(2 * n for n in a.shape), 333.25)
    if a.ndim == 1:
        big[::2] = a
        return big[::2]
    big[::2, ::2] = a
    return big[::2, ::2]


def _mk(case, use_c):
    import numpy as np
    from dtaidistance.subsequence.subsequencealignment import SubsequenceAlignment
    q = _layout(np.array(case['query'], dtype=np.double), case.get('layout_q'))
    s = _layout(np.array(case['series'], dtype=np.double), case.get('layout_s'))
    pen = case['penalty']
    kw = {} if pen is None else {'penalty': pen}
    return SubsequenceAlignment(q, s, use_c=use_c, **kw), (0.1 if pen is None else pen)


def ref_matching(case, pen):
    q, s = case['query'], case['series']
    out = []
    starts = []
    for e in range(len(s)):
        best, bb = ref.inf, None
        for b in range(e + 1):
            d = ref.ref_dtw(q, s[b:e + 1], penalty=pen)
            if d < best:
                best, bb = d, b
        out.append(best / len(q))
        starts.append(bb)
    return out, starts


def _match_tuple(m):
    return (int(m.idx), [int(x) for x in m.segment], float(m.value))


def run_align(case):
    import numpy as np
    res = Res()
    q, s = case['query'], case['series']
    lq, ls = len(q), len(s)
    res.cls('ndim=%d' % case['ndim'], 'series<query' if ls < lq else 'series>=query')
    if case.get('layout_q', 'C') != 'C' or case.get('layout_s', 'C') != 'C':
        res.cls('non-C-layout')
    mfs = {}
    pen = None
    expm = None
    for use_c in (False, True):
        eng = 'c' if use_c else 'py'
        sa_pen, exc = libcall(_mk, case, use_c)
        if exc:
            res.fail('%s:init:%s' % (eng, exc), 'constructor raised')
            continue
        sa, pen = sa_pen
        _r, exc = libcall(sa.align)
        if exc:
            res.fail('%s:align:%s' % (eng, exc), 'align raised')
            continue
        mf = [float(x) for x in sa.matching_function()]
        mfs[eng] = mf
        if expm is None:
            expm, starts = ref_matching(case, pen)
            res.nontrivial = ls > lq >= 2 and any(b is not None and b > 0 for b in starts)
        if len(mf) != ls:
            res.fail(eng + ':mf-length', 'matching function has %d entries for a series of %d' % (len(mf), ls))
            continue
        for e, (v, x) in enumerate(zip(mf, expm)):
            if not ref.close(v, x):
                res.fail(eng + ':mf-value', 'matching_function[%d]=%r, min over starts of reference DTW / len(query) = %r'
                         % (e, v, x))
                break
        # best match
        bm, exc = libcall(sa.best_match)
        if exc:
            res.fail('%s:best_match:%s' % (eng, exc), 'best_match raised')
            continue
        got, exc = libcall(lambda: (bm.segment, bm.path, float(bm.value), float(bm.distance), int(bm.idx)))
        if exc:
            res.fail('%s:best_match.props:%s' % (eng, exc), 'SAMatch property raised')
            continue
        seg, path, val, dist, idx = got
        _check_match(res, eng + ':best', case, pen, seg, path, val, dist, idx, expm)
        if not ref.close(val, min(expm)):
            res.fail(eng + ':best:not-minimal', 'best_match value %r, minimum of the matching function %r' % (val, min(expm)))
        # k-best iterator
        it = case['iter']
        import itertools
        cap = ls + 2   # more matches than end points cannot be distinct: bound the iteration (a non-terminating
        #                iterator must surface as a failure, not as a hang)
        ms, exc = libcall(lambda: [(m.segment, m.path, float(m.value), float(m.distance), int(m.idx))
                                   for m in itertools.islice(sa.kbest_matches(**it), cap)])
        if exc:
            res.fail('%s:kbest:%s' % (eng, exc), 'kbest_matches raised for %r' % (it,))
            continue
        if len(ms) >= cap:
            res.fail(eng + ':kbest:unbounded', 'the iterator yielded %d matches for a series of %d samples' % (len(ms), ls))
            continue
        if it['k'] is not None and len(ms) > it['k']:
            res.fail(eng + ':kbest:count', '%d matches for k=%r' % (len(ms), it['k']))
        ends = [m[4] for m in ms]
        if len(set(ends)) != len(ends):
            res.fail(eng + ':kbest:duplicate-end', 'end points %r' % ends)
        vals = [m[2] for m in ms]
        if any(b < a - 1e-12 * max(1, abs(a)) for a, b in zip(vals, vals[1:])):
            res.fail(eng + ':kbest:order', 'values not non-decreasing: %r' % vals)
        for seg, path, val, dist, idx in ms:
            _check_match(res, eng + ':kbest', case, pen, seg, path, val, dist, idx, expm)
            ln = seg[1] - seg[0] + 1
            if (it['minlength'] is not None and ln < it['minlength']) or (it['maxlength'] is not None and ln > it['maxlength']):
                res.fail(eng + ':kbest:length', 'segment %r has length %d, limits [%r, %r]' % (seg, ln, it['minlength'],
                                                                                          it['maxlength']))
        if it['overlap'] == 0:
            for a in range(len(ms)):
                for b in range(a + 1, len(ms)):
                    (b1, e1), (b2, e2) = ms[a][0], ms[b][0]
                    shared = min(e1, e2) - max(b1, b2) + 1
                    if shared > 1:
                        res.fail(eng + ':kbest:overlap', 'segments %r and %r share %d samples with overlap=0'
                                 % (ms[a][0], ms[b][0], shared))
        if len(ms) >= 2:
            res.cls('kbest>=2')
        _other_routes(res, eng, sa, case, pen, expm, ms, cap)
    if 'py' in mfs and 'c' in mfs and len(mfs['py']) == len(mfs['c']):
        if not all(ref.close(a, b) for a, b in zip(mfs['py'], mfs['c'])):
            res.fail('engines-differ', 'python %r vs C %r' % (mfs['py'], mfs['c']))
    return res


def _other_routes(res, eng, sa, case, pen, expm, ms, cap):
    """The other public routes to the same matches: get_match / matching_function_* for EVERY end point (segment and
    path must realise the matching-function value there, as for the best match), the *_fast spellings, and the two
    iterators with another stopping rule (best_matches, best_matches_knee), which must yield a prefix of what
    kbest_matches(k=None) yields for the same overlap / length limits."""
    import itertools
    it = case['iter']
    ls = len(case['series'])
    for e in range(ls):
        got, exc = libcall(lambda: (lambda m: (m.segment, m.path, float(m.value), float(m.distance), int(m.idx)))(sa.get_match(e)))
        if exc:
            res.fail('%s:get_match:%s' % (eng, exc), 'get_match(%d) raised' % e)
            break
        _check_match(res, eng + ':any-end', case, pen, *got, expm=expm)
        seg2, exc = libcall(lambda: ([int(x) for x in sa.matching_function_segment(e)],
                                     int(sa.matching_function_endpoint(e)), int(sa.matching_function_startpoint(e)),
                                     [(int(r), int(c)) for r, c in sa.matching_function_bestpath(e)]))
        if exc:
            res.fail('%s:mf-helpers:%s' % (eng, exc), 'matching_function_segment/endpoint/startpoint/bestpath(%d) raised' % e)
            break
        sg, ep, sp, bp = seg2
        if sg != [int(got[0][0]), int(got[0][1])] or ep != e or sp != sg[0] or bp != [(int(r), int(c)) for r, c in got[1]]:
            res.fail(eng + ':mf-helpers:inconsistent', 'end %d: segment %r endpoint %r startpoint %r bestpath %r, match says segment '
                     '%r path %r' % (e, sg, ep, sp, bp[:6], got[0], got[1][:6]))
            break
    kw = {k: v for k, v in it.items() if k != 'k'}
    full, exc = libcall(lambda: [_match_tuple(m) for m in itertools.islice(sa.kbest_matches(k=None, **kw), cap)])
    if exc or len(full) >= cap:
        return          # reported by the k-best part for the drawn k when it is a defect of the iterator itself
    # the *_fast spellings
    fast, exc = libcall(lambda: [_match_tuple(m) for m in itertools.islice(sa.kbest_matches_fast(**it), cap)])
    if exc:
        res.fail('%s:kbest_fast:%s' % (eng, exc), 'kbest_matches_fast raised for %r' % (it,))
    elif fast != [(i, [int(x) for x in sg], v) for sg, _p, v, _d, i in ms]:
        res.fail(eng + ':kbest_fast:differs', 'kbest_matches_fast(%r) yields %r, kbest_matches %r' % (it, fast[:4], ms[:4]))
    bmf, exc = libcall(lambda: _match_tuple(sa.best_match_fast()))
    if exc:
        res.fail('%s:best_match_fast:%s' % (eng, exc), 'best_match_fast raised')
    elif not ref.close(bmf[2], min(expm)):
        res.fail(eng + ':best_fast:not-minimal', 'best_match_fast value %r, minimum %r' % (bmf[2], min(expm)))
    # range-factor iterator
    rf = case.get('rangefactor', 2)
    for name, call in (('best_matches', lambda: sa.best_matches(max_rangefactor=rf, **kw)),
                       ('best_matches_fast', lambda: sa.best_matches_fast(max_rangefactor=rf, **kw)),
                       ('best_matches_knee', lambda: sa.best_matches_knee(alpha=case.get('alpha', 0.3), **kw)),
                       ('best_matches_knee_fast', lambda: sa.best_matches_knee_fast(alpha=case.get('alpha', 0.3), **kw))):
        got, exc = libcall(lambda: [_match_tuple(m) for m in itertools.islice(call(), cap)])
        if exc:
            res.fail('%s:%s:%s' % (eng, name, exc), '%s raised for %r' % (name, kw))
            continue
        if got != full[:len(got)]:
            res.fail('%s:%s:not-a-prefix' % (eng, name), '%s(%r) yields %r, kbest_matches(k=None) yields %r'
                     % (name, kw, got[:4], full[:4]))
            continue
        if name.startswith('best_matches_knee') or not full:
            continue
        bound = full[0][2] * rf
        if any(v > bound * (1 + 1e-9) + 1e-300 for _i, _s, v in got):
            res.fail('%s:%s:beyond-range' % (eng, name), 'yielded values %r, first * max_rangefactor = %r'
                     % ([v for _i, _s, v in got], bound))
        nxt = full[len(got):len(got) + 1]
        if nxt and nxt[0][2] < bound * (1 - 1e-9) - 1e-300:
            res.fail('%s:%s:stopped-early' % (eng, name), 'stopped after %d matches although the next one (%r) is within '
                     'first * max_rangefactor = %r' % (len(got), nxt[0], bound))
        if len(got) < len(full):
            res.cls('rangefactor-stops-early')


def _check_match(res, tag, case, pen, seg, path, val, dist, idx, expm):
    q, s = case['query'], case['series']
    lq = len(q)
    b, e = int(seg[0]), int(seg[1])
    if not (0 <= b <= e < len(s)) or e != idx:
        res.fail(tag + ':segment', 'segment %r for end index %r' % (seg, idx))
        return
    if not ref.close(val, expm[e]):
        res.fail(tag + ':value', 'value %r != matching function at %d (%r)' % (val, e, expm[e]))
    if not ref.close(dist, val * lq):
        res.fail(tag + ':distance', 'distance %r != value*len(query) %r' % (dist, val * lq))
    try:
        p = [(int(r), int(c)) for r, c in path]
    except Exception:
        res.fail(tag + ':path-malformed', 'path %r' % (path,))
        return
    if not p or p[0] != (0, b) or p[-1] != (lq - 1, e):
        res.fail(tag + ':path-ends', 'path %r does not run from (0,%d) to (%d,%d)' % (p[:8], b, lq - 1, e))
        return
    sub = s[b:e + 1]
    probs, cost = ref.path_problems([(r, c - b) for r, c in p], q, sub, penalty=pen)
    if probs:
        res.fail(tag + ':path-invalid', '; '.join(probs[:2]))
        return
    import math
    if not ref.close(math.sqrt(cost) / lq, val):
        res.fail(tag + ':path-cost', 'path cost/len(query) = %r, value %r' % (math.sqrt(cost) / lq, val))


def run_hist(case):
    import numpy as np
    res = Res()
    res.cls('use_c' if case['use_c'] else 'python', 'ndim=%d' % case['ndim'])
    made, exc = libcall(_mk, case, case['use_c'])
    if exc:
        res.fail('hist:init:' + exc, 'constructor raised')
        return res
    sa, pen = made
    _r, exc = libcall(sa.align)
    if exc:
        res.fail('hist:align:' + exc, 'align raised')
        return res
    mf0 = np.array(sa.matching_function(), copy=True)
    paths0 = np.array(sa.paths, copy=True)
    its = []       # (iterator on the shared object, iterator on a fresh object)
    advanced = set()
    for op in case['ops']:
        if op[0] == 'open':
            fresh, _ = _mk(case, case['use_c'])
            fresh.align()
            its.append((sa.kbest_matches(**op[1]), fresh.kbest_matches(**op[1]), op[1]))
        elif op[0] == 'next':
            a, b, prm = its[op[1]]
            try:
                ma = next(a, None)
                ta = None if ma is None else _match_tuple(ma)
            except Exception as ex:
                res.fail('hist:next:exc:%s' % type(ex).__name__, 'advancing an iterator on the shared object raised %r' % (ex,))
                continue
            mb = next(b, None)
            tb = None if mb is None else _match_tuple(mb)
            advanced.add(op[1])
            if ta != tb:
                res.fail('hist:differs', 'iterator %d (%r) yielded %r on the shared object, a fresh object yields %r'
                         % (op[1], prm, ta, tb))
        elif op[0] == 'best':
            m, exc = libcall(sa.best_match)
            if exc:
                res.fail('hist:best:' + exc, 'best_match raised')
            else:
                _t, exc = libcall(_match_tuple, m)
                if exc:
                    res.fail('hist:best.props:' + exc, 'best_match properties raised')
        elif op[0] == 'mf':
            sa.matching_function()
        elif op[0] == 'align':
            _r, exc = libcall(sa.align)
            if exc:
                res.fail('hist:align:' + exc, 'align raised')
        if not np.array_equal(np.asarray(sa.matching_function()), mf0):
            res.fail('hist:matching-changed', 'the matching function of the shared object changed after %r' % (op,))
            break
        if not np.array_equal(np.asarray(sa.paths), paths0, equal_nan=True):
            res.fail('hist:paths-changed', 'the warping paths matrix of the shared object changed after %r' % (op,))
            break
    res.nontrivial = len(advanced) >= 2 and len(case['series']) > len(case['query']) >= 2
    return res


def legs(tier):
    return [Leg('align', _case_align(), run_align, 8000, 80000, max_shrink_buckets=8),
            Leg('history', _case_hist(), run_hist, 2400, 24000)]


REGIONS = {}
