# -*- coding: utf-8 -*-
"""C05 — every reported best path is a valid warping path that achieves the distance (DESIGN.md §3 C05)."""
import ctypes

from hypothesis import strategies as st

from .. import gen, ref, capi
from ..runner import Leg, Res, libcall

PROPERTY = 'C05'
NEED_C = True
RULE = ('Series pairs x window x penalty x psi x max_step x inner distance x ndim (no max_dist). Entry points: best_path on '
        'a Python matrix (default call for penalty 0; internal-representation matrix + penalty=adj_penalty otherwise, as '
        'its docstring prescribes), best_path on a C full matrix, best_path2, dtw.warping_path (use_c False and True), dtw.warping_path_fast, '
        'dtw_ndim.warping_path, dtw_cc.warping_path(_ndim), dtw_cc.best_path_compact on a compact matrix, custom start '
        'cell (Python row/col and C dtw_best_path_customstart through ctypes into index arrays of exactly l1+l2 entries '
        'with canaries), dtw.warp. Oracle (any optimal path accepted): contiguous steps (1,1)/(1,0)/(0,1), in band, within '
        'max_step, starts/ends in the psi-relaxed corners (custom start: ends at the requested cell), accumulated cost '
        '(penalties included, transformed) equals the distance reported by the same call and the reference distance. '
        'Non-trivial: lengths >= 3 and the path has a non-diagonal step or is psi-trimmed; the class "several optimal '
        'paths" (brute-force count > 1, small cases) is tracked.'
        ' Also dtw.warping_path_penalty (both engines: the path must be optimal for the given penalty, the reported value = distance + penalty_post per non-diagonal step) and dtw.warping_amount.')
ASSUMPTIONS = ['finite doubles |x| <= 1e3, lengths <= 12, ndim <= 2', 'no max_dist (paths through pruned matrices are not '
               'part of the property)', 'dtw.warp is exercised without psi (it divides by the per-target count)']


@st.composite
def _case(draw, max_len):
    ndim = draw(st.sampled_from([1, 1, 1, 2]))
    case = draw(gen.dtw_case(max_len=max_len, ndim=ndim, inners=gen.INNER_NAMES, with_mld=False))
    case['ndim'] = ndim
    l1, l2 = len(case['s1']), len(case['s2'])
    case['start'] = [draw(st.integers(1, l1)), draw(st.integers(1, l2))]
    case['penalty_post'] = draw(st.sampled_from([0, 0, 0.5, 1, 2.25]))
    return case


def _check_path(res, tag, case, path, dist, refd, end=None, expect_cost=None):
    kw = gen.settings_kwargs(case, keys=('window', 'penalty', 'psi', 'max_step'))
    if end is not None:
        kw['psi'] = (kw['psi'][0], 0, kw['psi'][2], 0)
    probs, cost = ref.path_problems(path, case['s1'], case['s2'], end=end, **kw)
    if probs:
        kind = 'empty' if probs[0].startswith('empty') else 'start' if 'start corner' in probs[0] else \
            'end' if ('end corner' in probs[0] or 'requested end' in probs[0]) else 'step' if 'illegal step' in probs[0] \
            else 'band' if 'band' in probs[0] else 'max_step' if 'max_step' in probs[0] else 'other'
        res.fail(tag + ':invalid-' + kind, '%s; path=%r' % ('; '.join(probs[:3]), list(path)[:12]))
        return None
    res_fn = ref.INNER[case['inner']][1]
    c = res_fn(cost)
    if dist is not None and not ref.close(c, dist):
        res.fail(tag + ':cost-vs-reported', 'path cost %r != distance reported by the same call %r; path=%r'
                 % (c, dist, list(path)[:12]))
    if expect_cost is not None and not ref.close(c, expect_cost):
        res.fail(tag + ':cost', 'path cost %r != %r; path=%r' % (c, expect_cost, list(path)[:12]))
    if refd is not None and not ref.close(c, refd):
        res.fail(tag + ':cost-vs-reference', 'path cost %r != reference distance %r; path=%r' % (c, refd, list(path)[:12]))
    return path


def run(case):
    import numpy as np
    from dtaidistance import dtw, dtw_ndim, dtw_cc
    res = Res()
    s1, s2, nd, inner = case['s1'], case['s2'], case['ndim'], case['inner']
    l1, l2 = len(s1), len(s2)
    res.cls(*gen.classes_dtw(case))
    res.cls('ndim=%d' % nd)
    rkw = gen.settings_kwargs(case, keys=('window', 'penalty', 'psi', 'max_step'))
    refd = ref.ref_dtw(s1, s2, **rkw)
    if refd == ref.inf:
        res.cls('no-path')
        return res      # no admissible path: nothing to trace (distance = inf is C01's)
    if l1 * l2 <= 16:
        _b, npaths = ref.brute_dtw_internal(s1, s2, **rkw)
        if npaths > 1:
            res.cls('several-optimal-paths')
    a1 = np.array(s1, dtype=np.double)
    a2 = np.array(s2, dtype=np.double)
    p1 = a1 if nd > 1 else list(s1)
    p2 = a2 if nd > 1 else list(s2)
    kw = {'window': case['window'], 'penalty': case['penalty'], 'psi': gen.psi_to_lib(case['psi']),
          'max_step': case['max_step'], 'inner_dist': inner}
    ival = ref.INNER[inner][2]
    adj_pen = ival(case['penalty']) if case['penalty'] else 0
    paths_seen = []

    # --- best_path on a Python matrix
    if adj_pen:
        got, exc = libcall(dtw.warping_paths, p1, p2, keep_int_repr=True, use_ndim=(nd > 1), **kw)
    else:
        got, exc = libcall(dtw.warping_paths, p1, p2, use_ndim=(nd > 1), **kw)
    if exc is None:
        d, M = got
        path, exc2 = libcall(dtw.best_path, M, penalty=adj_pen) if adj_pen else libcall(dtw.best_path, M)
        if exc2:
            res.fail('py.best_path:' + exc2, 'best_path raised')
        else:
            paths_seen.append(_check_path(res, 'py.best_path', case, path, None, refd))
        if not adj_pen:
            path, exc2 = libcall(dtw.best_path2, M)
            if exc2:
                res.fail('py.best_path2:' + exc2, 'best_path2 raised')
            else:
                _check_path(res, 'py.best_path2', case, path, None, refd)
        # custom start cell
        r, c = case['start']
        cell = float(M[r, c])
        if cell not in (-1.0,) and cell != ref.inf and ref.in_band(r - 1, c - 1, l1, l2, case['window']):
            path, exc2 = libcall(dtw.best_path, M, row=r, col=c, penalty=adj_pen) if adj_pen else \
                libcall(dtw.best_path, M, row=r, col=c)
            if exc2:
                res.fail('py.best_path[start]:' + exc2, 'best_path(row, col) raised')
            else:
                res_fn = ref.INNER[inner][1]
                _check_path(res, 'py.best_path[start]', case, path, None, None, end=(r - 1, c - 1),
                            expect_cost=res_fn(cell) if adj_pen else cell)
    # --- dtw.warping_path (Python)
    got, exc = libcall(dtw.warping_path, p1, p2, include_distance=True, use_ndim=(nd > 1), **kw)
    if exc:
        res.fail('py.warping_path:' + exc, 'warping_path raised')
    else:
        path, d = got
        paths_seen.append(_check_path(res, 'py.warping_path', case, path, float(d), refd))
    if nd > 1:
        got, exc = libcall(dtw_ndim.warping_path, a1, a2, **kw)
        if exc:
            res.fail('py.ndim.warping_path:' + exc, 'dtw_ndim.warping_path raised')
        else:
            _check_path(res, 'py.ndim.warping_path', case, got, None, refd)
    # --- C
    ckw = dict(kw)
    got, exc = libcall(dtw.warping_paths_fast, a1, a2, use_ndim=(nd > 1), keep_int_repr=bool(adj_pen), **ckw)
    if exc is None:
        d, M = got
        path, exc2 = libcall(dtw.best_path, M, penalty=adj_pen) if adj_pen else libcall(dtw.best_path, M)
        if exc2:
            res.fail('c.best_path[full]:' + exc2, 'best_path on the C matrix raised')
        else:
            paths_seen.append(_check_path(res, 'c.best_path[full]', case, path, None, refd))
    skw = {k: (0 if v is None else v) for k, v in kw.items()}
    if nd == 1:
        got, exc = libcall(dtw.warping_path_fast, a1, a2, include_distance=True, **kw)
        if exc:
            res.fail('c.warping_path_fast:' + exc, 'warping_path_fast raised')
        else:
            path, d = got
            paths_seen.append(_check_path(res, 'c.warping_path_fast', case, path, float(d), refd))
    # the public route through the C engine: warping_path(use_c=True) computes a C matrix and traces it in Python
    got, exc = libcall(dtw.warping_path, a1, a2, include_distance=True, use_ndim=(nd > 1), use_c=True, **kw)
    if exc:
        res.fail('c.warping_path(use_c):' + exc, 'warping_path(use_c=True) raised')
    else:
        path, d = got
        paths_seen.append(_check_path(res, 'c.warping_path(use_c)', case, path, float(d), refd))
    if nd > 1:
        got, exc = libcall(dtw_ndim.warping_path, a1, a2, use_c=True, **kw)
        if exc:
            res.fail('c.ndim.warping_path(use_c):' + exc, 'dtw_ndim.warping_path(use_c=True) raised')
        else:
            _check_path(res, 'c.ndim.warping_path(use_c)', case, got, None, refd)
    if nd > 1:
        got, exc = libcall(dtw_cc.warping_path_ndim, a1, a2, nd, True, **skw)
        if exc:
            res.fail('c.warping_path_ndim:' + exc, 'dtw_cc.warping_path_ndim raised')
        else:
            path, d = got
            _check_path(res, 'c.warping_path_ndim', case, path, float(d), refd)
    # compact matrix + best_path_compact, custom start through ctypes
    got, exc = libcall(dtw.warping_paths_fast, a1, a2, use_ndim=(nd > 1), compact=True, keep_int_repr=True,
                       psi_neg=True, **ckw)
    if exc is None:
        d, W = got
        W = np.ascontiguousarray(W, dtype=np.double)
        path, exc2 = libcall(dtw_cc.best_path_compact, W, l1, l2, **skw)
        if exc2:
            res.fail('c.best_path_compact:' + exc2, 'best_path_compact raised')
        else:
            paths_seen.append(_check_path(res, 'c.best_path_compact', case, path, None, refd))
        L = capi.lib('dtw_cc')
        cs = capi.settings(window=case['window'], max_step=case['max_step'], penalty=case['penalty'],
                           psi=gen.psi4(case['psi']), inner_dist=inner)
        n = l1 + l2
        CAN = -7777
        i1 = (capi.idx_t * (n + 8))(*([CAN] * (n + 8)))
        i2 = (capi.idx_t * (n + 8))(*([CAN] * (n + 8)))
        r, c = case['start']
        rcell = ref.ref_cells(s1, s2, **rkw).get((r - 1, c - 1))
        W2 = None
        if rcell is not None:
            # a custom start cell must not be a -1 marker: matrix without markers
            got2, exc2 = libcall(dtw.warping_paths_fast, a1, a2, use_ndim=(nd > 1), compact=True, keep_int_repr=True,
                                 psi_neg=False, **ckw)
            if exc2 is None:
                W2 = np.ascontiguousarray(got2[1], dtype=np.double)
        if W2 is not None:
            p1p = ctypes.cast(ctypes.addressof(i1) + 4 * 8, capi.idx_p)
            p2p = ctypes.cast(ctypes.addressof(i2) + 4 * 8, capi.idx_p)
            ln = L.dtw_best_path_customstart(W2.ctypes.data_as(capi.seq_p), p1p, p2p, l1, l2, r, c, ctypes.byref(cs))
            if any(i1[k] != CAN or i2[k] != CAN for k in list(range(4)) + list(range(n + 4, n + 8))):
                res.fail('c.customstart:canary', 'dtw_best_path_customstart wrote outside its l1+l2 index arrays')
            elif not (0 <= ln <= n):
                res.fail('c.customstart:length', 'path length %r not in [0, l1+l2]' % ln)
            else:
                path = [(i1[4 + k], i2[4 + k]) for k in range(ln)][::-1]
                res_fn = ref.INNER[inner][1]
                _check_path(res, 'c.customstart', case, path, None, None, end=(r - 1, c - 1),
                            expect_cost=res_fn(rcell))
    # --- warping_path_penalty: the same optimal path, and its distance plus penalty_post per non-diagonal step;
    #     warping_amount: the number of those steps
    pp = case.get('penalty_post', 0)
    for tag, extra in (('py.warping_path_penalty', {}), ('c.warping_path_penalty(use_c)', {'use_c': True})):
        got, exc = libcall(dtw.warping_path_penalty, (a1 if extra else p1), (a2 if extra else p2), penalty_post=pp,
                           use_ndim=(nd > 1), **kw, **extra)
        if exc:
            res.fail(tag + ':' + exc, 'warping_path_penalty raised')
            continue
        d, path, _steps, _M = got
        ok = _check_path(res, tag, case, path, None, refd)
        if ok is not None:
            nd_steps = sum(1 for a, b in zip(path, path[1:]) if (b[0] - a[0], b[1] - a[1]) != (1, 1))
            wa, exc = libcall(dtw.warping_amount, path)
            if exc or wa != nd_steps:
                res.fail('warping_amount', 'warping_amount=%r (%s) for a path with %d non-diagonal steps: %r'
                         % (wa, exc, nd_steps, list(path)[:12]))
            if not ref.close(float(d), refd + pp * nd_steps):
                res.fail(tag + ':distance', 'reported %r, DTW distance %r + penalty_post %r * %d non-diagonal steps'
                         % (float(d), refd, pp, nd_steps))
    # --- dtw.warp (no psi)
    if nd == 1 and not any(gen.psi4(case['psi'])):
        wkw = dict(kw)
        wkw.pop('psi')
        got, exc = libcall(dtw.warp, list(s1), list(s2), **wkw)
        if exc:
            res.fail('py.warp:' + exc, 'dtw.warp raised')
        else:
            w, path = got
            ok = _check_path(res, 'py.warp', case, path, None, refd)
            if ok is not None:
                for cidx in range(l2):
                    src = [s1[r] for (r, cc) in path if cc == cidx]
                    if not src or not ref.close(w[cidx], sum(src) / len(src)):
                        res.fail('py.warp:mean', 'warped[%d]=%r, mean of aligned source points %r' % (cidx, w[cidx], src))
                        break
    good = [p for p in paths_seen if p]
    nondiag = any(any((b[0] - a[0], b[1] - a[1]) != (1, 1) for a, b in zip(p, p[1:])) for p in good)
    trimmed = any(p[0] != (0, 0) or p[-1] != (l1 - 1, l2 - 1) for p in good)
    res.nontrivial = l1 >= 3 and l2 >= 3 and (nondiag or trimmed)
    return res


def legs(tier):
    ml = 8 if tier == 'quick' else 12
    a = Leg('paths', _case(ml), run, 12000, 120000, max_shrink_buckets=8)
    return [a]


def _c_bucket(bucket):
    return bucket.startswith('c.')


def _region_psi_band(case, bucket, obs=None):
    """F05a (same root cause as F04a): C warping-paths kernels / compact backtracking with psi wider than the band."""
    return _c_bucket(bucket) and ref.psi_beyond_band(len(case['s1']), len(case['s2']), case['window'],
                                                     gen.psi4(case['psi']))


def _region_skipped_end(case, bucket, obs=None):
    """F05b: backtracking from psi-skipped end cells. Only when the distance is attained at a relaxed end cell other
    than the corner (so that skipped cells exist), only for paths that stop early / are empty."""
    if not (bucket.endswith(':invalid-end') or bucket.endswith(':invalid-empty')):
        return False
    if '[start]' in bucket or 'customstart' in bucket:
        return False
    p = gen.psi4(case['psi'])
    if not (p[1] or p[3]):
        return False
    s1, s2 = case['s1'], case['s2']
    kw = gen.settings_kwargs(case, keys=('window', 'penalty', 'psi', 'max_step'))
    cells = ref.ref_cells(s1, s2, **kw)
    best = ref.ref_dtw_internal(s1, s2, cells=cells, psi=kw['psi'])
    corner = cells.get((len(s1) - 1, len(s2) - 1))
    return corner is None or best < corner


REGIONS = {'c05_psi_beyond_band': _region_psi_band, 'c05_skipped_end_cells': _region_skipped_end}
