# -*- coding: utf-8 -*-
"""C19 — distance-to-similarity and squashing: monotone, bounded, faithful (DESIGN.md §3 C19)."""
import math

from hypothesis import strategies as st

from .. import ref
from ..runner import Leg, Res, libcall

PROPERTY = 'C19'
NEED_C = False
RULE = ('Hypothesis draws a non-negative finite distance array (1-3 axes, 1..30 elements, one case in 16 with 257..420 elements; values 0 or in '
        '[1e-3, 1e6], lattice or float; forced zeros, duplicates, single elements, all-equal arrays), a method '
        '(every documented name, mixed case for distance_to_similarity), explicit or data-derived r / a / x0 / '
        'base, cover_quantile in {False, q, (q, target)} with q, target in [0.05, 0.95], keep_sign. Oracles: '
        'element-wise formula evaluated with the math module, monotonicity over all element pairs (sorted), '
        'zero -> maximum, range [0,1], round trip through return_params. Non-trivial: the array has >= 2 distinct '
        'values and >= 1 zero, or a parameter is derived from the data; distinct by case hash.'
        ' Integer-valued data is handed over as int64, uint8, uint16, int16 or uint64 arrays in half of the cases (when the type can hold the values).')
ASSUMPTIONS = ['values are 0 or in [1e-3, 1e6] (squares neither overflow nor underflow)',
               'explicit scale parameters are positive (r, a in [0.01, 100]), base in (1, 10], q/target in [0.05, 0.95]',
               "method 'reverse' is read as (r - D) / r, the only reading compatible with the property's [0,1] clause",
               'element-wise tolerance 1e-9 relative']

D2S_METHODS = ['exponential', 'gaussian', 'reciprocal', 'reverse']
SQ_METHODS = ['logistic', 'gaussian', 'exponential']


@st.composite
def _array(draw):
    n = draw(st.integers(1, 30))
    if draw(st.integers(0, 15)) == 0:
        n = draw(st.integers(257, 420))     # occasionally a large array (e.g. the 17x17 .. 20x20 distance matrix of a real data set)
    kind = draw(st.sampled_from(['lattice', 'float', 'float', 'allequal', 'allzero', 'integer']))
    if kind == 'integer':
        vals = [float(v) for v in draw(st.lists(st.integers(0, 12), min_size=n, max_size=n))]
    elif kind == 'lattice':
        vals = draw(st.lists(st.integers(0, 40).map(lambda k: k / 4.0), min_size=n, max_size=n))
    elif kind == 'float':
        v = st.one_of(st.just(0.0), st.floats(1e-3, 1e6, allow_nan=False), st.floats(1e-3, 10.0, allow_nan=False))
        vals = draw(st.lists(v, min_size=n, max_size=n))
    elif kind == 'allequal':
        c = draw(st.one_of(st.integers(1, 20).map(lambda k: k / 4.0), st.floats(1e-3, 1e6, allow_nan=False)))
        vals = [c] * n
    else:
        vals = [0.0] * n
    if kind in ('lattice', 'float', 'integer') and n > 1:
        if draw(st.booleans()):
            vals[draw(st.integers(0, n - 1))] = 0.0
        if draw(st.booleans()):
            vals[draw(st.integers(0, n - 1))] = vals[draw(st.integers(0, n - 1))]
    # shape: 1-3 axes
    shapes = [[n]]
    for a in range(1, n + 1):
        if n % a == 0:
            shapes.append([a, n // a])
            for b in range(1, n // a + 1):
                if (n // a) % b == 0:
                    shapes.append([a, b, n // a // b])
    shape = draw(st.sampled_from(shapes))
    return vals, shape


POS = st.one_of(st.sampled_from([0.25, 0.5, 1.0, 2.0, 4.0]), st.floats(0.01, 100.0, allow_nan=False))


def _mk_array(case):
    """The distances as an ndarray; integer-valued data is handed over with an integer dtype in half of the cases
    (a distance matrix of counts / edit distances), and integer-valued parameters then as Python ints."""
    import numpy as np
    if case.get('int_dtype') and all(float(v).is_integer() for v in case['vals']):
        dt = case['int_dtype'] if isinstance(case['int_dtype'], str) else 'int64'
        info = np.iinfo(dt)
        if not all(info.min <= v <= info.max for v in case['vals']):
            dt = 'int64'      # the narrow / unsigned type cannot hold these values
        return np.array([int(v) for v in case['vals']], dtype=dt).reshape(case['shape']), True
    return np.array(case['vals'], dtype=float).reshape(case['shape']), False


def _param(v, as_int):
    if as_int and v is not None and float(v).is_integer():
        return int(v)
    return v
QUANT = st.one_of(st.sampled_from([0.1, 0.25, 0.5, 0.75, 0.9]), st.floats(0.05, 0.95, allow_nan=False))


@st.composite
def _cq(draw):
    k = draw(st.sampled_from(['off', 'off', 'q', 'pair', 'list']))
    if k == 'off':
        return False
    if k == 'q':
        return draw(QUANT)
    return {'form': 'tuple' if k == 'pair' else 'list', 'v': [draw(QUANT), draw(QUANT)]}


@st.composite
def d2s_case(draw):
    vals, shape = draw(_array())
    m = draw(st.sampled_from(D2S_METHODS))
    mname = draw(st.sampled_from([m, m, m.upper(), m.capitalize()]))
    return {'vals': vals, 'shape': shape, 'method': mname,
            'r': draw(st.one_of(st.none(), POS)), 'a': draw(st.one_of(st.none(), st.none(), POS)),
            'cq': draw(_cq()), 'int_dtype': draw(st.sampled_from([False, False, False, True, True, 'uint8', 'uint16', 'int16', 'uint64']))}


@st.composite
def squash_case(draw):
    vals, shape = draw(_array())
    return {'vals': vals, 'shape': shape, 'method': draw(st.sampled_from(SQ_METHODS)),
            'r': draw(st.one_of(st.none(), POS)),
            'x0': draw(st.one_of(st.none(), st.none(), st.floats(0.0, 50.0, allow_nan=False),
                                 st.sampled_from([0.0, 1.0, 2.5]))),
            'base': draw(st.one_of(st.none(), st.none(), st.sampled_from([2.0, 10.0]),
                                   st.floats(1.01, 10.0, allow_nan=False))),
            'keep_sign': draw(st.booleans()), 'cq': draw(_cq()), 'int_dtype': draw(st.sampled_from([False, False, False, True, True, 'uint8', 'uint16', 'int16', 'uint64']))}


def _cq_lib(cq):
    if isinstance(cq, dict):
        return tuple(cq['v']) if cq['form'] == 'tuple' else list(cq['v'])
    return cq


def _quantile(vals, q):
    """Linear-interpolation quantile (numpy's default definition), own implementation."""
    s = sorted(vals)
    if len(s) == 1:
        return s[0]
    pos = q * (len(s) - 1)
    lo = int(math.floor(pos))
    hi = min(lo + 1, len(s) - 1)
    return s[lo] + (s[hi] - s[lo]) * (pos - lo)


def _check_common(res, tag, vals, out, increasing, check_range, zero_is_max):
    """monotone over all pairs (via sorting), range, zero -> extreme."""
    bad = [v for v in out if not isinstance(v, float) or math.isnan(v) or math.isinf(v)]
    if bad:
        res.fail(tag + ':nonfinite', 'non-finite output value(s) %r' % bad[:3])
        return
    order = sorted(range(len(vals)), key=lambda k: vals[k])
    for a, b in zip(order, order[1:]):
        if vals[a] == vals[b]:
            if not ref.close(out[a], out[b], 1e-12):
                res.fail(tag + ':monotone', 'equal inputs %r give %r vs %r' % (vals[a], out[a], out[b]))
                break
        elif increasing:
            if out[a] > out[b] + 1e-12 * max(1.0, abs(out[a])):
                res.fail(tag + ':monotone', 'f(%r)=%r > f(%r)=%r' % (vals[a], out[a], vals[b], out[b]))
                break
        else:
            if out[a] < out[b] - 1e-12 * max(1.0, abs(out[a])):
                res.fail(tag + ':monotone', 'f(%r)=%r < f(%r)=%r' % (vals[a], out[a], vals[b], out[b]))
                break
    if check_range:
        for v in out:
            if v < -1e-12 or v > 1 + 1e-12:
                res.fail(tag + ':range', 'value %r outside [0,1]' % v)
                break
    if zero_is_max and 0.0 in vals:
        z = out[vals.index(0.0)]
        if z < max(out) - 1e-12 * max(1.0, abs(z)):
            res.fail(tag + ':zero', 'f(0)=%r is not the maximum %r' % (z, max(out)))


def run_d2s(case):
    import numpy as np
    from dtaidistance import similarity
    res = Res()
    vals = case['vals']
    D, is_int = _mk_array(case)
    m = case['method'].lower()
    r, a, cq = case['r'], case['a'], case['cq']
    if is_int:
        res.cls('dtype=int')
    derived = (r is None and m != 'reciprocal') or (m == 'reciprocal' and a is None and cq is not False)
    res.nontrivial = (len(set(vals)) >= 2 and 0.0 in vals) or derived
    res.cls('method=' + m, 'axes=%d' % len(case['shape']), 'cq' if cq is not False else 'nocq',
            'derived' if derived else 'explicit')
    # the scale the documentation prescribes
    q = t = None
    if cq is not False:
        if isinstance(cq, dict):
            q, t = cq['v']
        else:
            q, t = cq, 1 - cq
    er, ea = r, a
    if m in ('exponential', 'gaussian') and r is None:
        if cq is False:
            er = max(vals)
        elif m == 'exponential':
            er = -_quantile(vals, q) / math.log(t)
        else:
            er = math.sqrt(-_quantile(vals, q) ** 2 / math.log(t))
    if m == 'reverse' and r is None:
        er = min(vals) + max(vals)
    if m == 'reciprocal':
        if r is None:
            er = 1.0
        if a is None:
            ea = 1.0 if cq is False else \
                ((1 - t * er) / (t * _quantile(vals, q)) if _quantile(vals, q) != 0 else float('inf'))
    degenerate = (m != 'reciprocal' and (er == 0 or not math.isfinite(er))) or \
                 (m == 'reciprocal' and (not math.isfinite(ea) or ea < 0))
    if degenerate:
        res.cls('derived-scale-degenerate')
    if m == 'reciprocal' and ea is not None and ea < 0:
        # (1 - target*r) < 0: the requested target is not reachable with this explicit r; outside the domain
        res.cls('unreachable-target')
        return res
    kw = {'method': case['method'], 'cover_quantile': _cq_lib(cq)}
    if r is not None:
        kw['r'] = _param(r, is_int)
    if a is not None:
        kw['a'] = _param(a, is_int)
    with np.errstate(all='ignore'):
        got, exc = libcall(similarity.distance_to_similarity, D, return_params=True, **kw)
    tag = 'd2s:' + m
    if exc:
        res.fail(tag + ':' + exc, 'distance_to_similarity raised')
        return res
    S, rr = got
    if tuple(np.shape(S)) != tuple(case['shape']):
        res.fail(tag + ':shape', 'output shape %r != input shape %r' % (np.shape(S), case['shape']))
        return res
    out = [float(x) for x in np.asarray(S, dtype=float).ravel()]
    if degenerate:
        bad = any(math.isnan(v) or math.isinf(v) for v in out)
        if bad:
            res.fail('d2s:degenerate-derived-scale', 'data-derived scale is zero/undefined (r=%r a=%r) and the output '
                     'contains non-finite values %r' % (er, ea, out[:3]))
            return res
    # reported parameter = prescribed parameter; the formula is then evaluated with the value actually used
    # (a data-derived r carries its own rounding, which -D/r may amplify)
    if not degenerate and m != 'reciprocal':
        if not ref.close(float(rr), er):
            res.fail(tag + ':reported-r', 'reported r=%r, prescribed r=%r' % (rr, er))
            return res
        er = float(rr)
    for x, y in zip(vals, out):
        if degenerate:
            break
        if m == 'exponential':
            e = math.exp(-x / er)
        elif m == 'gaussian':
            e = math.exp(-x * x / (er * er))
        elif m == 'reciprocal':
            e = 1.0 / (er + x * ea)
        else:
            e = (er - x) / er
        if not ref.close(y, e):
            res.fail(tag + ':formula', 'D=%r -> %r, documented formula with r=%r a=%r gives %r' % (x, y, er, ea, e))
            break
    _check_common(res, tag, vals, out, increasing=False,
                  check_range=(r is None and not (m == 'reciprocal' and a is not None)), zero_is_max=True)
    # round trip with the reported parameters
    kw2 = dict(kw)
    kw2['r'] = float(rr)
    kw2['cover_quantile'] = False
    with np.errstate(all='ignore'):
        again, exc = libcall(similarity.distance_to_similarity, D, **kw2)
    if exc:
        res.fail(tag + ':roundtrip:' + exc, 're-applying with reported r raised')
    else:
        o2 = [float(x) for x in np.asarray(again, dtype=float).ravel()]
        if not all(ref.close(u, v) for u, v in zip(out, o2)):
            res.fail(tag + ':roundtrip' + (':derived-a' if (m == 'reciprocal' and a is None and cq is not False) else ''),
                     're-applying with the reported parameter r=%r gives %r, first call gave %r'
                     % (rr, o2[:3], out[:3]))
    return res


def run_squash(case):
    import numpy as np
    from dtaidistance import similarity
    res = Res()
    vals = case['vals']
    X, is_int = _mk_array(case)
    m = case['method']
    r, x0, base, cq = case['r'], case['x0'], case['base'], case['cq']
    if is_int:
        res.cls('dtype=int')
    derived = r is None or (m == 'logistic' and x0 is None)
    res.nontrivial = (len(set(vals)) >= 2 and 0.0 in vals) or derived
    res.cls('method=' + m, 'cq' if cq is not False else 'nocq', 'derived' if derived else 'explicit',
            'keep_sign' if case['keep_sign'] else 'nosign', 'base' if base else 'e')
    q = t = None
    if cq is not False:
        if isinstance(cq, dict):
            q, t = cq['v']
        else:
            q, t = cq, cq
    ex0 = x0
    if m in ('gaussian', 'exponential'):
        ex0 = 0.0
    elif x0 is None:
        ex0 = sum(vals) / len(vals)
    er = r
    if r is None:
        if m == 'gaussian':
            er = 1.0 if cq is False else math.sqrt(-(_quantile(vals, q) - ex0) ** 2 / math.log(1 - t))
        elif m == 'exponential':
            er = 1.0 if cq is False else -(_quantile(vals, q) - ex0) / math.log(1 - t)
        else:
            if cq is False:
                er = ex0 / 6
            else:
                lg = math.log(1 / t - 1)
                er = -(_quantile(vals, q) - ex0) / lg if lg != 0 else float('inf')
    degenerate = (er == 0 or not math.isfinite(er) or er < 0)
    # the quantile equals the midpoint up to the rounding of mean/quantile (e.g. all-equal data): mathematically the
    # derived slope is zero, numerically it is rounding noise of either sign
    noise = (r is None and m == 'logistic' and cq is not False and
             abs(_quantile(vals, q) - ex0) <= 1e-9 * max(1.0, abs(ex0)))
    if noise and er != 0:
        res.cls('derived-scale-degenerate', 'derived-scale-noise')
        with np.errstate(all='ignore'):
            got, exc = libcall(similarity.squash, X, return_params=True, method=m, keep_sign=case['keep_sign'],
                               cover_quantile=_cq_lib(cq), **{k: _param(case[k], is_int) for k in ('x0', 'base')
                                                              if case[k] is not None})
        if exc:
            res.fail('squash:noise-derived-scale', 'derived slope is rounding noise (quantile = midpoint) and squash raised '
                     + exc)
        else:
            out = [float(v) for v in np.asarray(got[0], dtype=float).ravel()]
            if any(math.isnan(v) or math.isinf(v) or v < -1e-12 or v > 1 + 1e-12 for v in out):
                res.fail('squash:noise-derived-scale', 'derived slope r=%r is rounding noise (quantile = midpoint = %r) and '
                         'the output %r leaves [0,1]' % (got[1], ex0, out[:3]))
        return res
    if degenerate:
        res.cls('derived-scale-degenerate')
        if er < 0 or not math.isfinite(er):
            # logistic with a quantile/target pair on the wrong side of the midpoint: negative slope requested
            res.cls('unreachable-target')
            return res
    kw = {'method': m, 'keep_sign': case['keep_sign'], 'cover_quantile': _cq_lib(cq)}
    for k in ('r', 'x0', 'base'):
        if case[k] is not None:
            kw[k] = _param(case[k], is_int)
    with np.errstate(all='ignore'):
        got, exc = libcall(similarity.squash, X, return_params=True, **kw)
    tag = 'squash:' + m
    if exc:
        if degenerate:
            res.fail('squash:degenerate-derived-scale', 'data-derived slope r=%r and squash raised %s' % (er, exc))
        else:
            res.fail(tag + ':' + exc, 'squash raised')
        return res
    Y, rr, rx0 = got
    if tuple(np.shape(Y)) != tuple(case['shape']):
        res.fail(tag + ':shape', 'output shape %r != input shape %r' % (np.shape(Y), case['shape']))
        return res
    out = [float(v) for v in np.asarray(Y, dtype=float).ravel()]
    if degenerate:
        if any(math.isnan(v) or math.isinf(v) for v in out):
            res.fail('squash:degenerate-derived-scale', 'data-derived slope r=%r and the output contains non-finite '
                     'values %r' % (er, out[:3]))
        return res
    if not ref.close(float(rr), er) or not ref.close(float(rx0), ex0):
        res.fail(tag + ':reported-params', 'reported (r, x0)=(%r, %r), prescribed (%r, %r)' % (rr, rx0, er, ex0))
        return res
    er, ex0 = float(rr), float(rx0)   # evaluate the formula with the values actually used (see run_d2s)
    b = math.e if base is None else base

    def f(x):
        try:
            if m == 'gaussian':
                return 1 - b ** (-(x - ex0) ** 2 / (er * er))
            if m == 'exponential':
                return 1 - b ** (-(x - ex0) / er)
            return 1 / (1 + b ** (-(x - ex0) / er))
        except OverflowError:
            return 0.0
    for x, y in zip(vals, out):
        e = f(x)
        if case['keep_sign']:
            e = (1.0 if x > 0 else 0.0) * (e - f(0.0))
        if not ref.close(y, e):
            res.fail(tag + ':formula', 'X=%r -> %r, documented formula with r=%r x0=%r base=%r gives %r'
                     % (x, y, er, ex0, base, e))
            break
    _check_common(res, tag, vals, out, increasing=True, check_range=True, zero_is_max=False)
    kw2 = dict(kw)
    kw2['r'] = float(rr)
    if m == 'logistic':
        kw2['x0'] = float(rx0)
    kw2['cover_quantile'] = False
    with np.errstate(all='ignore'):
        again, exc = libcall(similarity.squash, X, **kw2)
    if exc:
        res.fail(tag + ':roundtrip:' + exc, 're-applying with reported parameters raised')
    else:
        o2 = [float(v) for v in np.asarray(again, dtype=float).ravel()]
        if not all(ref.close(u, v) for u, v in zip(out, o2)):
            res.fail(tag + ':roundtrip', 're-applying with reported r=%r x0=%r gives %r, first call gave %r'
                     % (rr, rx0, o2[:3], out[:3]))
    return res


def legs(tier):
    a = Leg('d2s', d2s_case(), run_d2s, 15000, 240000)
    b = Leg('squash', squash_case(), run_squash, 15000, 240000)
    return [a, b]


REGIONS = {
    # data-derived scale is zero / undefined (all-zero data, zero quantile): division by zero -> nan
    'c19_degenerate_scale_d2s': lambda case, bucket: bucket == 'd2s:degenerate-derived-scale',
    'c19_degenerate_scale_squash': lambda case, bucket: bucket == 'squash:degenerate-derived-scale',
    # same root cause, numerically: the quantile equals the midpoint up to rounding, the slope is noise of either sign
    'c19_noise_scale_squash': lambda case, bucket: bucket == 'squash:noise-derived-scale',
    # reciprocal + cover_quantile derives `a` but return_params reports only r
    'c19_reciprocal_roundtrip': lambda case, bucket: bucket == 'd2s:reciprocal:roundtrip:derived-a',
}
