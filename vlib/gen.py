# -*- coding: utf-8 -*-
"""Shared Hypothesis generators (DESIGN.md §2.3).  Every case is a JSON-serialisable dict so that a shrunk
failure can be written to a replay file and re-executed without Hypothesis."""
from hypothesis import strategies as st

from . import ref

# ------------------------------------------------------------------------------------------------------
# values
# ------------------------------------------------------------------------------------------------------
LATTICE = st.integers(-16, 16).map(lambda k: k / 4.0)          # multiples of 1/4 in [-4, 4]: exact arithmetic
SMALLINT = st.integers(-4, 4).map(float)
FLOATS = st.floats(min_value=-1e3, max_value=1e3, allow_nan=False, allow_infinity=False, width=64)


def value_strategy(regime):
    if regime == 'L':
        return st.one_of(LATTICE, SMALLINT)
    return FLOATS


@st.composite
def series(draw, min_len=1, max_len=8, regime='L', ndim=1):
    n = draw(st.integers(min_len, max_len))
    v = value_strategy(regime)
    if ndim == 1:
        return draw(st.lists(v, min_size=n, max_size=n))
    return draw(st.lists(st.lists(v, min_size=ndim, max_size=ndim), min_size=n, max_size=n))


@st.composite
def count(draw, lo, hi, big, one_in=6):
    """Number of series / candidates / matches: usually lo..hi, one case in `one_in` up to `big` (bit masks crossing a
    byte, block plans and heaps of more than a handful of rows: mechanisms that depend on how many, not how long)."""
    if big > hi and draw(st.integers(0, one_in - 1)) == 0:
        return draw(st.integers(hi + 1, big))
    return draw(st.integers(lo, hi))


@st.composite
def series_pair(draw, max_len=8, ndim=1, min_len=1, regimes=('L', 'L', 'F', 'S')):
    """Two series + the regime label. Regime S derives the second series from the first."""
    regime = draw(st.sampled_from(regimes))
    if regime != 'S':
        hi = max_len
        if draw(st.integers(0, 23)) == 0:
            hi = max(4 * max_len, 64)     # occasional long series: code paths that only engage beyond the usual sizes
            # (blocked loops, buffer growth, band rows longer than some constant)
            l1 = draw(st.integers(max_len + 1, hi))
        else:
            l1 = draw(st.integers(min_len, max_len))
        if draw(st.integers(0, 3)) == 0:
            l2 = l1
        else:
            l2 = draw(st.integers(max(min_len, l1 - 6), min(hi, l1 + 6)))
        s1 = draw(series(l1, l1, regime, ndim))
        s2 = draw(series(l2, l2, regime, ndim))
        return s1, s2, regime
    base_regime = draw(st.sampled_from(['L', 'L', 'F']))
    s1 = draw(series(min_len, max_len, base_regime, ndim))
    kind = draw(st.sampled_from(['identical', 'offset', 'stretch', 'constant', 'monotone', 'negative', 'prefix']))
    if kind == 'identical':
        s2 = [x[:] if ndim > 1 else x for x in s1]
    elif kind == 'offset':
        off = draw(st.sampled_from([0.25, 0.5, 1.0, -1.0, 2.0, 3.0, -0.75]))
        s2 = [[y + off for y in x] if ndim > 1 else x + off for x in s1]
    elif kind == 'stretch':
        s2 = []
        for x in s1:
            k = draw(st.integers(1, 2))
            for _ in range(k):
                if len(s2) < max_len:
                    s2.append(x[:] if ndim > 1 else x)
    elif kind == 'constant':
        c = draw(value_strategy(base_regime))
        n2 = draw(st.integers(min_len, max_len))
        s2 = [[c] * ndim if ndim > 1 else c for _ in range(n2)]
    elif kind == 'monotone':
        if ndim == 1:
            s1 = sorted(s1)
            s2 = sorted(draw(series(min_len, max_len, base_regime, 1)))
        else:
            s2 = draw(series(min_len, max_len, base_regime, ndim))
    elif kind == 'negative':
        def neg(x):
            return -abs(x) - 0.25
        s1 = [[neg(y) for y in x] if ndim > 1 else neg(x) for x in s1]
        s2 = draw(series(min_len, max_len, base_regime, ndim))
        s2 = [[neg(y) for y in x] if ndim > 1 else neg(x) for x in s2]
    else:  # prefix
        k = draw(st.integers(1, len(s1)))
        s2 = [x[:] if ndim > 1 else x for x in s1[:k]]
    return s1, s2, 'S:' + kind


# ------------------------------------------------------------------------------------------------------
# settings
# ------------------------------------------------------------------------------------------------------
def window_strategy(l1, l2, allow_none=True):
    m = max(l1, l2)
    opts = [st.integers(1, min(3, m + 2)), st.integers(1, m + 2)]
    if allow_none:
        opts.append(st.none())
    return st.one_of(*opts)


def penalty_strategy(regime='L'):
    lat = st.sampled_from([0.25, 0.5, 1.0, 2.0, 3.0])
    if regime == 'F':
        return st.one_of(st.none(), st.just(0), lat, st.floats(0.001, 50.0, allow_nan=False))
    return st.one_of(st.none(), st.just(0), lat, lat)


def repair_psi(l1, l2, psi4):
    """Degenerate combinations (empty alignment admitted) are repaired by construction, not rejected."""
    p = list(psi4)
    n = 0
    while ref.degenerate_psi(l1, l2, p):
        n += 1
        if p[0] >= l1 and p[3] >= l2:
            if p[0] > 0 and (p[0] >= p[3] or p[3] == 0):
                p[0] -= 1
            else:
                p[3] -= 1
        else:
            if p[2] > 0 and (p[2] >= p[1] or p[1] == 0):
                p[2] -= 1
            else:
                p[1] -= 1
    return tuple(p), n


@st.composite
def psi_strategy(draw, l1, l2, forms=('none', 'zero', 'int', 'int', 'tuple', 'tuple', 'list', 'list', 'npint', 'nptuple', 'npuint', 'nputuple')):
    """Returns (psi value as passed to the library (JSON form), number of repairs)."""
    form = draw(st.sampled_from(forms))
    if form == 'none':
        return None, 0
    if form == 'zero':
        return 0, 0
    if form in ('int', 'npint', 'npuint'):
        k = draw(st.integers(1, max(1, min(l1, l2))))
        n = 0
        while k > 0 and ref.degenerate_psi(l1, l2, (k, k, k, k)):
            k -= 1
            n += 1
        if form in ('npint', 'npuint'):
            # one integer, as integer arithmetic on array shapes produces it (numpy.int64), or an unsigned one (numpy.uint8,
            # e.g. read from a header / a small-integer array), whose differences would wrap around
            return {'form': form, 'v': [k, k, k, k]}, n
        return k, n
    p = (draw(st.integers(0, l1)), draw(st.integers(0, l1)), draw(st.integers(0, l2)), draw(st.integers(0, l2)))
    # bias: many zeros so that single relaxations are frequent
    mask = draw(st.integers(0, 15))
    if draw(st.booleans()):
        p = tuple(v if (mask >> k) & 1 else 0 for k, v in enumerate(p))
    p, n = repair_psi(l1, l2, p)
    return {'form': form, 'v': list(p)}, n


def psi_to_lib(psi):
    """JSON form -> value handed to the library."""
    if isinstance(psi, dict):
        if psi['form'] in ('npint', 'nptuple', 'npuint', 'nputuple'):
            one = psi['form'] in ('npint', 'npuint')
            try:
                import numpy as np
            except ImportError:       # the NumPy-free interpreter: plain integers
                return int(psi['v'][0]) if one else tuple(psi['v'])
            if np is None:
                return int(psi['v'][0]) if one else tuple(psi['v'])
            if psi['form'] in ('npuint', 'nputuple'):
                return np.uint8(psi['v'][0]) if one else tuple(np.uint64(v) for v in psi['v'])
            return np.int64(psi['v'][0]) if one else tuple(np.int64(v) for v in psi['v'])
        return tuple(psi['v']) if psi['form'] == 'tuple' else list(psi['v'])
    return psi


def psi4(psi):
    if isinstance(psi, dict):
        return tuple(psi['v'])
    return ref.norm_psi(psi)


def _abs_diffs(s1, s2):
    vals = set()
    for x in s1:
        for y in s2:
            if isinstance(x, (list, tuple)):
                vals.add(ref._eu(x, y))
            else:
                vals.add(abs(x - y))
    return sorted(vals)


@st.composite
def threshold_between(draw, values, exact_ok=False, allow_none=True, none_weight=2):
    """Construct a threshold relative to the sorted distinct `values`: a midpoint between two neighbours that
    are clearly apart, clearly below the minimum, clearly above the maximum, or (exact_ok) exactly a value.
    Never within rounding of a compared quantity unless equality is exact."""
    vals = [v for v in values if v == v and v != float('inf')]
    kinds = ['none'] * (none_weight if allow_none else 0)
    if vals:
        kinds += ['above']
        if vals[0] > 1e-6:
            kinds += ['below']
        gaps = [k for k in range(len(vals) - 1) if vals[k + 1] - vals[k] > 1e-6 * max(1.0, abs(vals[k + 1]))]
        if gaps:
            kinds += ['mid', 'mid', 'mid']
        if exact_ok and any(v > 0 for v in vals):
            kinds += ['exact']
    if not kinds:
        return None
    kind = draw(st.sampled_from(kinds))
    if kind == 'none':
        return None
    if kind == 'above':
        return vals[-1] * 1.5 + 1.0
    if kind == 'below':
        return vals[0] / 2.0
    if kind == 'mid':
        k = draw(st.sampled_from(gaps))
        return (vals[k] + vals[k + 1]) / 2.0
    return draw(st.sampled_from([v for v in vals if v > 0]))


def max_step_strategy(s1, s2, regime):
    return threshold_between(_abs_diffs(s1, s2), exact_ok=(regime == 'L'), none_weight=4)


INNER_NAMES = ('squared euclidean', 'euclidean')
INNER_ALL = ('squared euclidean', 'squared euclidean', 'euclidean', 'custom_cubic', 'custom_double')


@st.composite
def dtw_case(draw, max_len=8, ndim=1, inners=INNER_NAMES, with_max_step=True, with_mld=True,
             psi_forms=('none', 'none', 'zero', 'zero', 'int', 'int', 'tuple', 'tuple', 'list', 'list', 'npint', 'nptuple', 'npuint',
                        'nputuple'), min_len=1):
    s1, s2, regime = draw(series_pair(max_len=max_len, ndim=ndim, min_len=min_len))
    l1, l2 = len(s1), len(s2)
    base = regime[0] if regime[0] in 'LF' else 'F'
    if regime.startswith('S'):
        flat = [y for x in (s1 + s2) for y in (x if isinstance(x, list) else [x])]
        base = 'L' if all(float(v * 4).is_integer() for v in flat) else 'F'
    case = {'s1': s1, 's2': s2, 'regime': regime, 'exact': base == 'L'}
    case['window'] = draw(window_strategy(l1, l2))
    case['penalty'] = draw(penalty_strategy(base))
    psi, nrep = draw(psi_strategy(l1, l2, psi_forms))
    case['psi'] = psi
    case['psi_repairs'] = nrep
    case['inner'] = draw(st.sampled_from(inners))
    case['max_step'] = draw(max_step_strategy(s1, s2, base)) if with_max_step else None
    case['max_length_diff'] = draw(st.one_of(st.none(), st.none(), st.none(), st.integers(0, 3))) if with_mld \
        else None
    return case


def settings_kwargs(case, keys=('window', 'penalty', 'psi', 'max_step', 'max_length_diff')):
    """Keyword arguments for the *reference* functions from a case."""
    kw = {}
    for k in keys:
        v = case.get(k)
        if k == 'psi':
            v = psi4(v)
        kw[k] = v
    kw['inner'] = case.get('inner', 'squared euclidean')
    return kw


def classes_dtw(case):
    """Class labels used for the generator histogram."""
    l1, l2 = len(case['s1']), len(case['s2'])
    w = case.get('window')
    p = psi4(case.get('psi'))
    out = ['regime=' + case['regime'][0]]
    if l1 != l2:
        out.append('unequal')
    narrow = w is not None and w < max(l1, l2)
    if narrow:
        out.append('window<max')
    if l1 != l2 and narrow:
        out.append('unequal*window')
    if any(p):
        out.append('psi')
        if narrow:
            out.append('psi*window')
            if w is not None and (p[2] + 1 > w + max(0, l2 - l1) or p[3] + 1 > w + max(0, l2 - l1)
                                  or p[0] + 1 > w + max(0, l1 - l2) or p[1] + 1 > w + max(0, l1 - l2)):
                out.append('psi>band')
    if case.get('penalty'):
        out.append('penalty')
    if case.get('max_step'):
        out.append('max_step')
        if any(p):
            out.append('psi*max_step')
    if case.get('max_length_diff') is not None:
        out.append('mld')
    if case.get('inner', 'squared euclidean') != 'squared euclidean':
        out.append('inner=' + case['inner'])
    if w is not None and min(l2 + 1, abs(l1 - l2) + 2 * (w - 1) + 3) != l2 + 1:
        out.append('rolling-buffer-rolls')
    if max(l1, l2) > 16:
        out.append('long')
    return out
