# -*- coding: utf-8 -*-
"""ctypes bindings to the C functions exported by the freshly built, staged extension modules
(dtw_cc*.so export the whole C API of dd_dtw.c / dd_ed.c / dd_dtw_openmp.c)."""
import ctypes as C
import glob
import os

idx_t = C.c_ssize_t
seq_t = C.c_double
seq_p = C.POINTER(seq_t)
idx_p = C.POINTER(idx_t)


class DTWSettings(C.Structure):
    _fields_ = [('window', idx_t), ('max_dist', seq_t), ('max_step', seq_t), ('max_length_diff', idx_t),
                ('penalty', seq_t), ('psi_1b', idx_t), ('psi_1e', idx_t), ('psi_2b', idx_t), ('psi_2e', idx_t),
                ('use_pruning', C.c_bool), ('only_ub', C.c_bool), ('inner_dist', C.c_int),
                ('window_type', C.c_int)]


class DTWBlock(C.Structure):
    _fields_ = [('rb', idx_t), ('re', idx_t), ('cb', idx_t), ('ce', idx_t), ('triu', C.c_bool)]


class DTWWps(C.Structure):
    _fields_ = [('ldiff', idx_t), ('ldiffr', idx_t), ('ldiffc', idx_t), ('window', idx_t), ('width', idx_t),
                ('length', idx_t), ('ri1', idx_t), ('ri2', idx_t), ('ri3', idx_t), ('overlap_left_ri', idx_t),
                ('overlap_right_ri', idx_t), ('max_step', seq_t), ('max_dist', seq_t), ('penalty', seq_t)]


_libs = {}


def lib(name='dtw_cc'):
    """name in {'dtw_cc', 'dtw_cc_omp', 'ed_cc'}"""
    key = (os.getpid(), name)
    if key in _libs:
        return _libs[key]
    d = os.environ['VERIF_STAGE_DIR']
    paths = glob.glob(os.path.join(d, 'dtaidistance', name + '.*.so'))
    if not paths:
        raise RuntimeError('no staged %s extension' % name)
    L = C.CDLL(paths[0])
    SP = C.POINTER(DTWSettings)
    BP = C.POINTER(DTWBlock)
    WP = C.POINTER(DTWWps)

    def sig(fn, res, args):
        if hasattr(L, fn):
            f = getattr(L, fn)
            f.restype = res
            f.argtypes = args

    for fn in ('dtw_distance', 'dtw_distance_euclidean', 'lb_keogh', 'lb_keogh_euclidean'):
        sig(fn, seq_t, [seq_p, idx_t, seq_p, idx_t, SP])
    for fn in ('dtw_distance_ndim', 'dtw_distance_ndim_euclidean'):
        sig(fn, seq_t, [seq_p, idx_t, seq_p, idx_t, C.c_int, SP])
    for fn in ('ub_euclidean', 'ub_euclidean_euclidean', 'euclidean_distance', 'euclidean_distance_euclidean'):
        sig(fn, seq_t, [seq_p, idx_t, seq_p, idx_t])
    for fn in ('ub_euclidean_ndim', 'ub_euclidean_ndim_euclidean', 'euclidean_distance_ndim',
               'euclidean_distance_ndim_euclidean'):
        sig(fn, seq_t, [seq_p, idx_t, seq_p, idx_t, C.c_int])
    sig('dtw_settings_default', DTWSettings, [])
    sig('dtw_settings_wps_length', idx_t, [idx_t, idx_t, SP])
    sig('dtw_settings_wps_width', idx_t, [idx_t, idx_t, SP])
    sig('dtw_wps_parts', DTWWps, [idx_t, idx_t, SP])
    for fn in ('dtw_warping_paths', 'dtw_warping_paths_euclidean'):
        sig(fn, seq_t, [seq_p, seq_p, idx_t, seq_p, idx_t, C.c_bool, C.c_bool, C.c_bool, SP])
    for fn in ('dtw_warping_paths_ndim', 'dtw_warping_paths_ndim_euclidean'):
        sig(fn, seq_t, [seq_p, seq_p, idx_t, seq_p, idx_t, C.c_bool, C.c_bool, C.c_bool, C.c_int, SP])
    sig('dtw_expand_wps', None, [seq_p, seq_p, idx_t, idx_t, SP])
    sig('dtw_expand_wps_slice', None, [seq_p, seq_p, idx_t, idx_t, idx_t, idx_t, idx_t, idx_t, SP])
    sig('dtw_expand_wps_affinity', None, [seq_p, seq_p, idx_t, idx_t, SP])
    sig('dtw_expand_wps_slice_affinity', None, [seq_p, seq_p, idx_t, idx_t, idx_t, idx_t, idx_t, idx_t, SP])
    sig('dtw_best_path', idx_t, [seq_p, idx_p, idx_p, idx_t, idx_t, SP])
    sig('dtw_best_path_isclose', idx_t, [seq_p, idx_p, idx_p, idx_t, idx_t, seq_t, seq_t, SP])
    sig('dtw_best_path_customstart', idx_t, [seq_p, idx_p, idx_p, idx_t, idx_t, idx_t, idx_t, SP])
    sig('dtw_warping_path', seq_t, [seq_p, idx_t, seq_p, idx_t, idx_p, idx_p, idx_p, SP])
    sig('dtw_warping_path_ndim', seq_t, [seq_p, idx_t, seq_p, idx_t, idx_p, idx_p, idx_p, C.c_int, SP])
    sig('dtw_distances_length', idx_t, [BP, idx_t, idx_t])
    sig('dtw_distances_ptrs', idx_t, [C.POINTER(seq_p), idx_t, idx_p, seq_p, BP, SP])
    sig('dtw_distances_matrix', idx_t, [seq_p, idx_t, idx_t, seq_p, BP, SP])
    sig('dtw_distances_ndim_ptrs', idx_t, [C.POINTER(seq_p), idx_t, idx_p, C.c_int, seq_p, BP, SP])
    sig('dtw_distances_ndim_matrix', idx_t, [seq_p, idx_t, idx_t, C.c_int, seq_p, BP, SP])
    sig('dtw_distances_prepare', C.c_int, [BP, idx_t, idx_t, C.POINTER(idx_p), C.POINTER(idx_p), idx_p, SP])
    _libs[key] = L
    return L


def settings(window=None, max_dist=None, max_step=None, max_length_diff=None, penalty=None, psi=None,
             use_pruning=False, only_ub=False, inner_dist='squared euclidean'):
    s = DTWSettings()
    s.window = window or 0
    s.max_dist = max_dist or 0.0
    s.max_step = max_step or 0.0
    s.max_length_diff = max_length_diff or 0
    s.penalty = penalty or 0.0
    if psi is None:
        psi = (0, 0, 0, 0)
    elif isinstance(psi, int):
        psi = (psi,) * 4
    s.psi_1b, s.psi_1e, s.psi_2b, s.psi_2e = [int(x) for x in psi]
    s.use_pruning = bool(use_pruning)
    s.only_ub = bool(only_ub)
    s.inner_dist = 1 if inner_dist in ('euclidean', 1) else 0
    s.window_type = 0
    return s


def darr(values):
    """flat list of floats -> ctypes double array (exactly that size)"""
    flat = []
    for v in values:
        if isinstance(v, (list, tuple)):
            flat.extend(v)
        else:
            flat.append(v)
    n = max(1, len(flat))
    a = (seq_t * n)(*flat)
    return a


def ptr(a):
    return C.cast(a, seq_p)


def block(b, n):
    k = DTWBlock()
    if b is None:
        k.rb, k.re, k.cb, k.ce, k.triu = 0, 0, 0, 0, True
    else:
        k.rb, k.re = b[0]
        k.cb, k.ce = b[1]
        k.triu = not (len(b) > 2 and b[2] is False)
    return k
