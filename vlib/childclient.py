# -*- coding: utf-8 -*-
import atexit
import json
import os
import subprocess
import sys

_children = {}
ROOT = os.path.dirname(os.path.dirname(os.path.abspath(__file__)))


def _dec(o):
    if isinstance(o, str) and o in ('inf', '-inf', 'nan'):
        return float(o)
    if isinstance(o, list):
        return [_dec(x) for x in o]
    if isinstance(o, dict):
        return {k: _dec(x) for k, x in o.items()}
    return o


def _enc(o):
    if isinstance(o, float) and (o != o or o in (float('inf'), float('-inf'))):
        raise ValueError('non-finite argument')
    return o


class Child:
    def __init__(self, nonumpy=False, env_extra=None):
        env = dict(os.environ)
        env['NONUMPY'] = '1' if nonumpy else '0'
        env['PYTHONHASHSEED'] = '0'
        env.pop('PYTHONPATH', None)
        if env_extra:
            env.update(env_extra)
        self.p = subprocess.Popen([sys.executable, os.path.join(ROOT, 'vlib', 'child.py'),
                                   os.environ['VERIF_STAGE_DIR']], stdin=subprocess.PIPE, stdout=subprocess.PIPE,
                                  env=env, text=True, bufsize=1, cwd=ROOT)

    def call(self, fn, args, kwargs=None, containers=None, **extra):
        req = {'fn': fn, 'args': args, 'kwargs': kwargs or {}, 'containers': containers or {}}
        req.update(extra)
        try:
            self.p.stdin.write(json.dumps(req) + '\n')
            self.p.stdin.flush()
            line = self.p.stdout.readline()
        except (BrokenPipeError, OSError):
            line = ''
        if not line:
            # the interpreter died while executing this library call (segfault / abort): that is an outcome of the
            # call, not a harness error; the next call gets a fresh child
            try:
                code = self.p.wait(10)
            except Exception:
                self.p.kill()
                code = 'killed'
            return {'exc': 'crash:child-exit-%s' % code}
        return _dec(json.loads(line))

    def close(self):
        try:
            self.p.stdin.close()
            self.p.wait(5)
        except Exception:
            self.p.kill()


def get(nonumpy=False, key=None, env_extra=None):
    k = (os.getpid(), nonumpy, key)
    c = _children.get(k)
    if c is None or c.p.poll() is not None:
        c = Child(nonumpy, env_extra)
        _children[k] = c
        atexit.register(c.close)
    return c
