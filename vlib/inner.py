# -*- coding: utf-8 -*-
"""User-supplied inner-distance objects handed to the *library* (the API documents that an object with
callables inner_dist / result / inner_val is accepted by the pure-Python engine).  The reference side has its
own implementation of the same functions in vlib/ref.py (INNER['custom_*'])."""
import math


class Cubic:
    """|x-y|**3, cube-root result, cubed settings values."""

    @staticmethod
    def inner_dist(x, y):
        return abs(x - y) ** 3

    @staticmethod
    def result(x):
        if hasattr(x, 'shape'):
            import numpy as np
            return np.cbrt(x)
        if math.isinf(x):
            return x
        return x ** (1.0 / 3.0)

    @staticmethod
    def inner_val(x):
        return x * x * x


class Double:
    """2|x-y|, halving result, doubled settings values."""

    @staticmethod
    def inner_dist(x, y):
        return 2.0 * abs(x - y)

    @staticmethod
    def result(x):
        return x / 2.0

    @staticmethod
    def inner_val(x):
        return 2.0 * x


class Abs:
    """|x-y|, identity result and settings values (class form, like Cubic)."""

    @staticmethod
    def inner_dist(x, y):
        return abs(x - y)

    @staticmethod
    def result(x):
        return x

    @staticmethod
    def inner_val(x):
        return x


def _power(p):
    from dtaidistance.innerdistance import CustomInnerDist

    class Power(CustomInnerDist):
        """|x-y|**p: several *instances* of one class that differ only in their parameter."""

        def __init__(self, p):
            self.p = p

        def inner_dist(self, x, y):
            return abs(x - y) ** self.p

        def result(self, x):
            if hasattr(x, 'shape'):
                import numpy as np
                return np.power(x, 1.0 / self.p)
            return x if math.isinf(x) else x ** (1.0 / self.p)

        def inner_val(self, x):
            return x ** self.p
    global _POWER
    if _POWER is None:
        _POWER = Power
    return _POWER(p)


_POWER = None


def lib_inner(name):
    if name == 'custom_cubic':
        return Cubic
    if name == 'custom_abs':
        return Abs
    if name.startswith('custom_pow'):
        return _power(float(name[len('custom_pow'):]))
    if name == 'custom_double':
        # an *instance* of a CustomInnerDist subclass: the other documented way of passing one
        from dtaidistance.innerdistance import CustomInnerDist

        class DoubleSub(CustomInnerDist):
            inner_dist = staticmethod(Double.inner_dist)
            result = staticmethod(Double.result)
            inner_val = staticmethod(Double.inner_val)
        return DoubleSub()
    return name
