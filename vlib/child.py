# -*- coding: utf-8 -*-
"""Line-oriented child process that executes library calls in a *separate interpreter* (used for the
"NumPy not importable" legs and for calls that must not share a process with the harness).

Protocol: one JSON object per line on stdin -> one JSON object per line on stdout.
   {"fn": "dtw.distance", "args": [...], "kwargs": {...}, "containers": {"0": "array"}, "inner": name}
Reply {"ok": value} or {"exc": "Type@file:function"}.
Started with NONUMPY=1 it blocks `import numpy` (sys.modules['numpy'] = None) *and* sets the repository's own
switch DTAIDISTANCE_TESTWITHOUTNUMPY=1 before importing the library.
"""
import array
import json
import math
import os
import sys
import traceback


def main():
    stage_dir = sys.argv[1]
    nonumpy = os.environ.get('NONUMPY') == '1'
    if nonumpy:
        os.environ['DTAIDISTANCE_TESTWITHOUTNUMPY'] = '1'
        sys.modules['numpy'] = None
    sys.path.insert(0, stage_dir)
    sys.path.insert(1, os.path.dirname(os.path.dirname(os.path.abspath(__file__))))
    import importlib
    from vlib import inner as vinner
    out = sys.stdout
    for line in sys.stdin:
        req = json.loads(line)
        try:
            modname, fname = req['fn'].rsplit('.', 1)
            mod = importlib.import_module('dtaidistance.' + modname)
            fn = getattr(mod, fname)
            args = list(req.get('args', []))
            for k, kind in req.get('containers', {}).items():
                k = int(k)
                if kind == 'array':
                    args[k] = array.array('d', args[k])
                elif kind == 'tuple':
                    args[k] = tuple(args[k])
                elif kind == 'ndarray':
                    import numpy as np
                    args[k] = np.array(args[k], dtype=np.double)
                elif kind == 'list-ndarray':
                    import numpy as np
                    args[k] = [np.array(x, dtype=np.double) for x in args[k]]
                elif kind == 'list-array':
                    args[k] = [array.array('d', x) for x in args[k]]
                elif kind == 'ndarray-F':
                    import numpy as np
                    args[k] = np.asfortranarray(np.array(args[k], dtype=np.double))
                elif kind == 'list-strided':
                    import numpy as np
                    lst = []
                    for x in args[k]:
                        a = np.array(x, dtype=np.double)
                        if a.ndim == 1:
                            big = np.full(2 * len(a), -555.5)
                            big[::2] = a
                            lst.append(big[::2])
                        else:
                            big = np.full((a.shape[0], a.shape[1] + 2), -555.5)
                            big[:, 1:-1] = a
                            lst.append(big[:, 1:-1])
                    args[k] = lst
            if req.get('omp_threads'):
                import ctypes
                ctypes.CDLL('libgomp.so.1').omp_set_num_threads(int(req['omp_threads']))
            if req.get('cpu_count'):
                n_cpu = int(req['cpu_count'])
                os.cpu_count = lambda: n_cpu
                if hasattr(os, 'process_cpu_count'):
                    os.process_cpu_count = lambda: n_cpu
            kwargs = dict(req.get('kwargs', {}))
            if 'inner_dist' in kwargs:
                kwargs['inner_dist'] = vinner.lib_inner(kwargs['inner_dist'])
            if 'block' in kwargs and kwargs['block'] is not None:
                bl = kwargs['block']
                kwargs['block'] = tuple([tuple(bl[0]), tuple(bl[1])] + list(bl[2:]))
            if isinstance(kwargs.get('psi'), dict):
                p = kwargs['psi']
                if p['form'] in ('npint', 'npuint'):
                    kwargs['psi'] = int(p['v'][0])       # no NumPy in this interpreter
                else:
                    kwargs['psi'] = tuple(p['v']) if p['form'] in ('tuple', 'nptuple', 'nputuple') else list(p['v'])
            reps = int(req.get('repeat', 1))
            v = fn(*args, **kwargs)
            if reps > 1:
                import struct

                def bits(x):
                    if hasattr(x, 'tolist'):
                        x = x.tolist()
                    elif isinstance(x, array.array):
                        x = list(x)
                    return json.dumps(x)
                b0 = bits(v)
                for _ in range(reps - 1):
                    if bits(fn(*args, **kwargs)) != b0:
                        raise AssertionError('repeated call returned a different result')
            if hasattr(v, 'tolist'):
                v = v.tolist()
            elif isinstance(v, array.array):
                v = list(v)
            rep = {'ok': v, 'numpy_loaded': bool(sys.modules.get('numpy'))}
        except Exception as e:
            where = '?'
            for fr in reversed(traceback.extract_tb(e.__traceback__)):
                if 'dtaidistance' in fr.filename:
                    where = '%s:%s' % (os.path.basename(fr.filename), fr.name)
                    break
            rep = {'exc': 'exc:%s@%s' % (type(e).__name__, where)}

        def enc(o):
            if isinstance(o, float) and (math.isinf(o) or math.isnan(o)):
                return repr(float(o))     # float(): numpy scalars print as np.float64(inf)
            if isinstance(o, (list, tuple)):
                return [enc(x) for x in o]
            if isinstance(o, dict):
                return {k: enc(x) for k, x in o.items()}
            return o
        out.write(json.dumps(enc(rep)) + '\n')
        out.flush()


if __name__ == '__main__':
    main()
