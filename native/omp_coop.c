/*
 * C07 cooperative OpenMP runtime (DESIGN.md §2.8b): the harness *replaces* libgomp so that it owns the schedule.
 *
 * GCC lowers the six `#pragma omp parallel for private(...) schedule(guided)` loops of dd_dtw_openmp.c to
 *   GOMP_parallel, GOMP_loop_nonmonotonic_guided_start/_next, GOMP_loop_end_nowait.
 * Those four entry points are implemented here on ucontext coroutines: GOMP_parallel creates N *logical* threads in
 * one OS thread; _start/_next hand out chunks whose sizes come from a schedule script; and because the library
 * objects are compiled with -fsanitize-coverage=trace-pc, __sanitizer_cov_trace_pc() (called at every basic block of
 * dd_dtw_openmp.c / dd_dtw.c / dd_ed.c) is a pre-emption point: the script says after how many callbacks to switch
 * and to which runnable thread.  Thread count, chunking and interleaving are thus generated, replayable values.
 *
 * Protocol: one case per line on stdin (numbers separated by blanks), one result line per case on stdout.
 */
#define _GNU_SOURCE
#include <stdbool.h>
#include <stdio.h>
#include <stdlib.h>
#include <string.h>
#include <ucontext.h>
#include "dd_dtw.h"
#include "dd_dtw_openmp.h"

#define MAXT 64
#define STACK (256 * 1024)

/* ---- schedule script ---- */
static long chunk_script[64]; static int n_chunk = 0, chunk_pos = 0;
static long pre_run[256]; static int pre_next[256]; static int n_pre = 0, pre_pos = 0;

/* ---- runtime state ---- */
static ucontext_t sched_ctx, thr_ctx[MAXT];
static char *stacks[MAXT];
static int alive[MAXT], n_thr = 0, cur = -1, in_parallel = 0;
static void (*par_fn)(void *); static void *par_data;
static long loop_next, loop_end, loop_incr; static int loop_init = 0;
static long budget = 0;
/* statistics */
static long st_preempt = 0, st_preempt_in_row = 0, st_chunks = 0; static int thr_chunks[MAXT]; static int in_row[MAXT];

static void thread_entry(int id) {
    par_fn(par_data);
    alive[id] = 0;
    swapcontext(&thr_ctx[id], &sched_ctx);
}

static void reload_budget(void) {
    if (n_pre == 0) { budget = 1L << 60; return; }
    budget = pre_run[pre_pos % n_pre];
}

void __sanitizer_cov_trace_pc(void) {
    if (!in_parallel || cur < 0) return;
    if (--budget > 0) return;
    /* pre-empt: hand control to the scheduler, which picks the next runnable thread from the script */
    st_preempt++;
    if (in_row[cur]) st_preempt_in_row++;
    int me = cur;
    swapcontext(&thr_ctx[me], &sched_ctx);
}

void GOMP_parallel(void (*fn)(void *), void *data, unsigned num_threads, unsigned flags) {
    (void)flags; (void)num_threads;
    par_fn = fn; par_data = data;
    loop_init = 0;
    for (int i = 0; i < n_thr; i++) {
        alive[i] = 1; thr_chunks[i] = 0; in_row[i] = 0;
        stacks[i] = (char *)malloc(STACK);
        getcontext(&thr_ctx[i]);
        thr_ctx[i].uc_stack.ss_sp = stacks[i];
        thr_ctx[i].uc_stack.ss_size = STACK;
        thr_ctx[i].uc_link = &sched_ctx;
        makecontext(&thr_ctx[i], (void (*)(void))thread_entry, 1, i);
    }
    in_parallel = 1;
    int want = 0;
    for (;;) {
        int remaining = 0;
        for (int i = 0; i < n_thr; i++) remaining += alive[i];
        if (!remaining) break;
        /* next thread: the script proposes one; take the next alive one at or after it */
        if (n_pre) want = pre_next[pre_pos % n_pre] % n_thr;
        else want = (want + 1) % n_thr;
        pre_pos++;
        int pick = -1;
        for (int k = 0; k < n_thr; k++) { int c = (want + k) % n_thr; if (alive[c]) { pick = c; break; } }
        cur = pick;
        reload_budget();
        swapcontext(&sched_ctx, &thr_ctx[pick]);
        cur = -1;
    }
    in_parallel = 0;
    for (int i = 0; i < n_thr; i++) free(stacks[i]);
}

static bool next_chunk(long *istart, long *iend) {
    if (in_row[cur]) in_row[cur] = 0;
    if ((loop_incr > 0 && loop_next >= loop_end) || (loop_incr < 0 && loop_next <= loop_end)) return false;
    long c = n_chunk ? chunk_script[chunk_pos++ % n_chunk] : 1;
    if (c < 1) c = 1;
    long s = loop_next, e = s + c * loop_incr;
    if ((loop_incr > 0 && e > loop_end) || (loop_incr < 0 && e < loop_end)) e = loop_end;
    loop_next = e;
    *istart = s; *iend = e;
    st_chunks++; thr_chunks[cur]++;
    in_row[cur] = 1;
    return true;
}

bool GOMP_loop_nonmonotonic_guided_start(long start, long end, long incr, long chunk, long *istart, long *iend) {
    (void)chunk;
    if (!loop_init) { loop_next = start; loop_end = end; loop_incr = incr; loop_init = 1; }
    return next_chunk(istart, iend);
}
bool GOMP_loop_nonmonotonic_guided_next(long *istart, long *iend) { return next_chunk(istart, iend); }
void GOMP_loop_end_nowait(void) { if (cur >= 0) in_row[cur] = 0; }
/* other schedules, should a change to the pragma select them: same cooperative chunking */
bool GOMP_loop_dynamic_start(long s, long e, long i, long c, long *a, long *b) { return GOMP_loop_nonmonotonic_guided_start(s, e, i, c, a, b); }
bool GOMP_loop_dynamic_next(long *a, long *b) { return next_chunk(a, b); }
bool GOMP_loop_nonmonotonic_dynamic_start(long s, long e, long i, long c, long *a, long *b) { return GOMP_loop_nonmonotonic_guided_start(s, e, i, c, a, b); }
bool GOMP_loop_nonmonotonic_dynamic_next(long *a, long *b) { return next_chunk(a, b); }
bool GOMP_loop_guided_start(long s, long e, long i, long c, long *a, long *b) { return GOMP_loop_nonmonotonic_guided_start(s, e, i, c, a, b); }
bool GOMP_loop_guided_next(long *a, long *b) { return next_chunk(a, b); }
void GOMP_loop_end(void) { if (cur >= 0) in_row[cur] = 0; }
void GOMP_barrier(void) {}
int omp_get_thread_num(void) { return cur < 0 ? 0 : cur; }
int omp_get_num_threads(void) { return in_parallel ? n_thr : 1; }

/* ---- case parsing and comparison ---- */
#define CAN 8
static const double CANARY = -98765.4321;

static char *tok;
static double nextd(void) { char *e; double v = strtod(tok, &e); tok = e; return v; }
static long nextl(void) { return (long)nextd(); }

static int compare(const char *name, double *par, double *ser, idx_t len, idx_t rp, idx_t rs, char *msg) {
    if (rp != rs) { sprintf(msg, "DIFF fn=%s returned-length %zd vs %zd", name, rp, rs); return 1; }
    for (int k = 0; k < CAN; k++) {
        if (par[-1 - k] != CANARY || par[len + k] != CANARY) { sprintf(msg, "CANARY fn=%s", name); return 1; }
    }
    for (idx_t i = 0; i < len; i++) {
        if (memcmp(&par[i], &ser[i], sizeof(double)) != 0) {
            sprintf(msg, "DIFF fn=%s idx=%zd par=%.17g ser=%.17g", name, i, par[i], ser[i]); return 1;
        }
    }
    return 0;
}

static double *outbuf(idx_t len) {
    double *b = (double *)malloc((len + 2 * CAN) * sizeof(double));
    for (idx_t i = 0; i < len + 2 * CAN; i++) b[i] = CANARY;
    return b + CAN;
}

int main(void) {
    static char line[1 << 16];
    while (fgets(line, sizeof(line), stdin)) {
        tok = line;
        int n = (int)nextl(), ndim = (int)nextl(), eq = (int)nextl();
        int hasblock = (int)nextl();
        DTWBlock blk = dtw_block_empty();
        blk.rb = nextl(); blk.re = nextl(); blk.cb = nextl(); blk.ce = nextl(); blk.triu = nextl() != 0;
        if (!hasblock) blk = dtw_block_empty();
        DTWSettings s = dtw_settings_default();
        s.window = nextl(); s.penalty = nextd(); long psi = nextl(); s.inner_dist = (int)nextl();
        s.max_dist = nextd(); s.max_step = nextd(); s.max_length_diff = nextl(); s.use_pruning = nextl() != 0;
        s.psi_1b = s.psi_1e = s.psi_2b = s.psi_2e = psi;
        n_thr = (int)nextl(); if (n_thr < 1) n_thr = 1; if (n_thr > MAXT) n_thr = MAXT;
        n_chunk = (int)nextl(); for (int i = 0; i < n_chunk; i++) chunk_script[i] = nextl();
        n_pre = (int)nextl(); for (int i = 0; i < n_pre; i++) { pre_run[i] = nextl(); pre_next[i] = (int)nextl(); }
        idx_t lens[64]; seq_t *ptrs[64]; if (n > 64) { fprintf(stderr, "harness: n > 64\n"); return 3; }
        for (int i = 0; i < n; i++) lens[i] = nextl();
        for (int i = 0; i < n; i++) {
            ptrs[i] = (seq_t *)malloc(lens[i] * ndim * sizeof(seq_t));
            for (idx_t k = 0; k < lens[i] * ndim; k++) ptrs[i][k] = nextd();
        }
        st_preempt = st_preempt_in_row = st_chunks = 0; chunk_pos = 0; pre_pos = 0;
        int used_max = 0;
        char msg[256]; msg[0] = 0; int bad = 0;
        DTWBlock b2 = blk;
        idx_t len = dtw_distances_length(&b2, n, n);
        /* 1. pointer forms */
        {
            double *po = outbuf(len), *so = outbuf(len); idx_t rp, rs;
            b2 = blk; rs = ndim == 1 ? dtw_distances_ptrs(ptrs, n, lens, so, &b2, &s)
                                     : dtw_distances_ndim_ptrs(ptrs, n, lens, ndim, so, &b2, &s);
            b2 = blk; rp = ndim == 1 ? dtw_distances_ptrs_parallel(ptrs, n, lens, po, &b2, &s)
                                     : dtw_distances_ndim_ptrs_parallel(ptrs, n, lens, ndim, po, &b2, &s);
            int u = 0; for (int i = 0; i < n_thr; i++) u += thr_chunks[i] > 0; if (u > used_max) used_max = u;
            bad = compare(ndim == 1 ? "ptrs_parallel" : "ndim_ptrs_parallel", po, so, len, rp, rs, msg);
            free(po - CAN); free(so - CAN);
        }
        if (!bad && eq) {
            idx_t L = lens[0];
            seq_t *mat = (seq_t *)malloc((size_t)n * L * ndim * sizeof(seq_t));
            for (int i = 0; i < n; i++) memcpy(mat + (size_t)i * L * ndim, ptrs[i], L * ndim * sizeof(seq_t));
            /* 2. matrix forms */
            double *po = outbuf(len), *so = outbuf(len); idx_t rp, rs;
            b2 = blk; rs = ndim == 1 ? dtw_distances_matrix(mat, n, L, so, &b2, &s)
                                     : dtw_distances_ndim_matrix(mat, n, L, ndim, so, &b2, &s);
            b2 = blk; rp = ndim == 1 ? dtw_distances_matrix_parallel(mat, n, L, po, &b2, &s)
                                     : dtw_distances_ndim_matrix_parallel(mat, n, L, ndim, po, &b2, &s);
            int u = 0; for (int i = 0; i < n_thr; i++) u += thr_chunks[i] > 0; if (u > used_max) used_max = u;
            bad = compare(ndim == 1 ? "matrix_parallel" : "ndim_matrix_parallel", po, so, len, rp, rs, msg);
            free(po - CAN); free(so - CAN);
            /* 3. two-matrix forms: the first k rows against all rows, rectangular block */
            if (!bad) {
                int k = 1 + (n > 1 ? (int)(blk.rb % (n - 1)) : 0);
                DTWBlock b3 = dtw_block_empty(); b3.triu = false; b3.rb = 0; b3.re = k; b3.cb = 0; b3.ce = n;
                DTWBlock b4 = b3;
                idx_t len2 = dtw_distances_length(&b4, k, n);
                double *po2 = outbuf(len2), *so2 = outbuf(len2);
                b4 = b3; rs = ndim == 1 ? dtw_distances_matrices(mat, k, L, mat, n, L, so2, &b4, &s)
                                        : dtw_distances_ndim_matrices(mat, k, L, mat, n, L, ndim, so2, &b4, &s);
                b4 = b3; rp = ndim == 1 ? dtw_distances_matrices_parallel(mat, k, L, mat, n, L, po2, &b4, &s)
                                        : dtw_distances_ndim_matrices_parallel(mat, k, L, mat, n, L, ndim, po2, &b4, &s);
                bad = compare(ndim == 1 ? "matrices_parallel" : "ndim_matrices_parallel", po2, so2, len2, rp, rs, msg);
                free(po2 - CAN); free(so2 - CAN);
            }
            free(mat);
        }
        for (int i = 0; i < n; i++) free(ptrs[i]);
        if (bad) printf("%s\n", msg);
        else printf("OK threads_used=%d preempts=%ld preempts_in_row=%ld chunks=%ld\n", used_max, st_preempt,
                    st_preempt_in_row, st_chunks);
        fflush(stdout);
    }
    return 0;
}
