/*
 * C08 native harness (DESIGN.md §2.8a): one entry function run_case() that decodes a byte string into
 * *structured* arguments of an exported routine of the repository's C engine, allocates every buffer with
 * malloc at exactly the documented size (so ASan red zones make a one-element overrun visible) and calls it.
 * Built with clang -fsanitize=address,undefined -fno-sanitize-recover=all; drivers: libFuzzer (FUZZ defined),
 * deterministic sweep / single-input replay (main below).  A cheap semantic oracle rides along.
 *
 * No state survives an iteration (the library has none besides print settings).
 */
#include <stdint.h>
#include <stdio.h>
#include <stdlib.h>
#include <string.h>
#include <math.h>
#include <unistd.h>
#include "dd_dtw.h"
#include "dd_dtw_openmp.h"

#define MAXL 12
#define NOPS 14

/* exclusion switches for open known findings (set from the command line / environment) */
static int excl_psi_band_wps = 0;   /* F08a: wps kernels + everything built on them, psi wider than band */
static int excl_slice = 0;          /* F08b: dtw_expand_wps_slice for non row-prefix slices */
static int excl_misc = 0;           /* reserved */

static unsigned long n_exec = 0, n_skipped = 0, n_nontrivial = 0, n_semantic = 0;
static uint8_t cur[64];
static size_t cur_len = 0;

void __sanitizer_set_death_callback(void (*cb)(void));
static void on_death(void) {
    char buf[200];
    int n = 0;
    n += snprintf(buf + n, sizeof(buf) - n, "\nC08-FAILING-INPUT ");
    for (size_t i = 0; i < cur_len && n < 190; i++) n += snprintf(buf + n, sizeof(buf) - n, "%02x", cur[i]);
    n += snprintf(buf + n, sizeof(buf) - n, "\n");
    write(2, buf, n);
}

static void semantic_fail(const char *msg) {
    fprintf(stderr, "C08-SEMANTIC-FAILURE %s\n", msg);
    on_death();
    abort();
}

typedef struct {
    int op; idx_t l1, l2; int ndim; DTWSettings s; int psi_neg, keep_int; idx_t a, b, c, d; int nser;
    const uint8_t *vals; size_t nvals;
} Case;

static seq_t val(const Case *k, size_t i) {
    if (k->nvals == 0) return 0.25 * (seq_t)((i * 7) % 9) - 1.0;
    return ((seq_t)k->vals[i % k->nvals] - 128.0) / 8.0;
}

static seq_t *series(const Case *k, idx_t len, size_t off) {
    size_t n = (size_t)len * k->ndim;
    seq_t *p = (seq_t *)malloc((n ? n : 1) * sizeof(seq_t));
    for (size_t i = 0; i < n; i++) p[i] = val(k, off + i);
    return p;
}

static int in_band(idx_t i, idx_t j, idx_t l1, idx_t l2, idx_t w) {
    if (w == 0) return 1;
    idx_t dr = l1 > l2 ? l1 - l2 : 0, dc = l2 > l1 ? l2 - l1 : 0;
    idx_t a = i - dr - w + 1; if (a < 0) a = 0;
    idx_t b = i + dc + w; if (b > l2) b = l2;
    return j >= a && j < b;
}

static int psi_beyond_band(const Case *k) {
    const DTWSettings *s = &k->s;
    idx_t l1 = k->l1, l2 = k->l2, w = s->window;
    if (s->psi_2b && !in_band(0, s->psi_2b < l2 ? s->psi_2b : l2 - 1, l1, l2, w)) return 1;
    if (s->psi_1b && !in_band(s->psi_1b < l1 ? s->psi_1b : l1 - 1, 0, l1, l2, w)) return 1;
    if (s->psi_2e && !in_band(l1 - 1, l2 - 1 - s->psi_2e > 0 ? l2 - 1 - s->psi_2e : 0, l1, l2, w)) return 1;
    if (s->psi_1e && !in_band(l1 - 1 - s->psi_1e > 0 ? l1 - 1 - s->psi_1e : 0, l2 - 1, l1, l2, w)) return 1;
    return 0;
}

static int decode(const uint8_t *d, size_t n, Case *k) {
    uint8_t b[16];
    memset(b, 0, sizeof(b));
    memcpy(b, d, n < 16 ? n : 16);
    memset(k, 0, sizeof(*k));
    k->op = b[0] % NOPS;
    k->l1 = 1 + b[1] % MAXL;
    k->l2 = 1 + b[2] % MAXL;
    idx_t mx = k->l1 > k->l2 ? k->l1 : k->l2;
    k->s = dtw_settings_default();
    k->s.window = b[3] % (mx + 2);
    k->s.psi_1b = b[4] % (k->l1 + 1);
    k->s.psi_1e = b[5] % (k->l1 + 1);
    k->s.psi_2b = b[6] % (k->l2 + 1);
    k->s.psi_2e = b[7] % (k->l2 + 1);
    /* degenerate psi combinations (empty alignment) are repaired, as in the Python generators */
    while ((k->s.psi_1b >= k->l1 && k->s.psi_2e >= k->l2)) { if (k->s.psi_1b) k->s.psi_1b--; else k->s.psi_2e--; }
    while ((k->s.psi_2b >= k->l2 && k->s.psi_1e >= k->l1)) { if (k->s.psi_2b) k->s.psi_2b--; else k->s.psi_1e--; }
    uint8_t f = b[8];
    k->s.penalty = (f & 1) ? 0.5 : 0;
    k->s.max_step = (f & 2) ? 2.0 : 0;
    k->s.max_dist = (f & 4) ? 3.0 : 0;
    k->s.use_pruning = (f & 8) ? true : false;
    k->s.inner_dist = (f & 16) ? 1 : 0;
    k->psi_neg = (f & 32) ? 1 : 0;
    k->keep_int = (f & 64) ? 1 : 0;
    k->s.only_ub = false;
    k->ndim = 1 + b[9] % 3;
    k->a = b[10]; k->b = b[11]; k->c = b[12]; k->d = b[13];
    k->nser = 1 + b[14] % 5;
    if (n > 16) { k->vals = d + 16; k->nvals = n - 16; }
    return 1;
}

static void check_path(idx_t *i1, idx_t *i2, idx_t len, idx_t l1, idx_t l2, const char *who) {
    if (len < 0 || len > l1 + l2) semantic_fail(who);
    for (idx_t i = 0; i < len; i++) {
        if (i1[i] < 0 || i1[i] >= l1 || i2[i] < 0 || i2[i] >= l2) semantic_fail(who);
    }
}

int run_case(const uint8_t *data, size_t size) {
    Case k;
    cur_len = size < sizeof(cur) ? size : sizeof(cur);
    memcpy(cur, data, cur_len);
    decode(data, size, &k);
#ifndef _OPENMP
    if (k.op == 9) k.op = 8;   /* no OpenMP runtime in this build: the *_parallel functions only print an error */
#endif
    idx_t l1 = k.l1, l2 = k.l2;
    int nd = k.ndim;
    DTWSettings *s = &k.s;
    int uses_wps = (k.op >= 2 && k.op <= 6) || k.op == 10 || k.op == 11 || k.op == 12;
    if (excl_psi_band_wps && uses_wps && psi_beyond_band(&k)) { n_skipped++; return 0; }
    n_exec++;
    if ((s->window != 0 && s->window < (l1 > l2 ? l1 : l2)) || s->psi_1b || s->psi_1e || s->psi_2b || s->psi_2e
        || nd > 1 || k.op == 8 || k.op == 9) n_nontrivial++;
    if (k.op == 0 || k.op == 1 || k.op == 7 || k.op == 13) { if (k.op == 0 || k.op == 7 || k.op == 13) nd = 1; }
    if (k.op == 2 || k.op == 4 || k.op == 5 || k.op == 12) nd = 1;
    k.ndim = nd;
    seq_t *s1 = series(&k, l1, 0);
    seq_t *s2 = series(&k, l2, 101);
    switch (k.op) {
    case 0: {   /* distance kernels, 1-D */
        seq_t d = dtw_distance(s1, l1, s2, l2, s);
        if (d < 0) semantic_fail("dtw_distance negative");
        break;
    }
    case 1: {
        seq_t d = dtw_distance_ndim(s1, l1, s2, l2, nd, s);
        if (d < 0) semantic_fail("dtw_distance_ndim negative");
        break;
    }
    case 2: case 3: case 4: case 5: case 6: case 12: {
        idx_t wl = dtw_settings_wps_length(l1, l2, s);
        idx_t ww = dtw_settings_wps_width(l1, l2, s);
        if (wl != (l1 + 1) * ww) semantic_fail("wps length != (l1+1)*width");
        seq_t *wps = (seq_t *)malloc(wl * sizeof(seq_t));
        seq_t d;
        if (k.op == 6) {
            idx_t *i1 = (idx_t *)malloc((l1 + l2) * sizeof(idx_t));
            idx_t *i2 = (idx_t *)malloc((l1 + l2) * sizeof(idx_t));
            idx_t len = 0;
            if (nd == 1) d = dtw_warping_path(s1, l1, s2, l2, i1, i2, &len, s);
            else d = dtw_warping_path_ndim(s1, l1, s2, l2, i1, i2, &len, nd, s);
            check_path(i1, i2, len, l1, l2, "dtw_warping_path");
            free(i1); free(i2); free(wps);
            break;
        }
        if (nd == 1) d = dtw_warping_paths(wps, s1, l1, s2, l2, true, k.keep_int, k.psi_neg, s);
        else d = dtw_warping_paths_ndim(wps, s1, l1, s2, l2, true, k.keep_int, k.psi_neg, nd, s);
        (void)d;
        if (k.op == 2 || k.op == 3) {
            seq_t *full = (seq_t *)malloc((l1 + 1) * (l2 + 1) * sizeof(seq_t));
            dtw_expand_wps(wps, full, l1, l2, s);
            free(full);
            idx_t *i1 = (idx_t *)malloc((l1 + l2) * sizeof(idx_t));
            idx_t *i2 = (idx_t *)malloc((l1 + l2) * sizeof(idx_t));
            idx_t len = dtw_best_path(wps, i1, i2, l1, l2, s);
            check_path(i1, i2, len, l1, l2, "dtw_best_path");
            len = dtw_best_path_isclose(wps, i1, i2, l1, l2, 1e-5, 1e-8, s);
            check_path(i1, i2, len, l1, l2, "dtw_best_path_isclose");
            free(i1); free(i2);
        } else if (k.op == 4) {
            idx_t rb = k.a % (l1 + 1), re = rb + 1 + k.b % (l1 + 1 - rb);
            idx_t cb = k.c % (l2 + 1), ce = cb + 1 + k.d % (l2 + 1 - cb);
            if (k.a & 128) { rb = 0; cb = 0; ce = l2 + 1; }
            int partial = (rb > 0 || cb > 0 || ce < l2 + 1);
            if (!(excl_slice && partial)) {
                seq_t *sl = (seq_t *)malloc((re - rb) * (ce - cb) * sizeof(seq_t));
                dtw_expand_wps_slice(wps, sl, l1, l2, rb, re, cb, ce, s);
                free(sl);
            } else { n_skipped++; }
        } else if (k.op == 5) {
            idx_t rs = 1 + k.a % l1, cs = 1 + k.b % l2;
            if (in_band(rs - 1, cs - 1, l1, l2, s->window)) {
                idx_t *i1 = (idx_t *)malloc((l1 + l2) * sizeof(idx_t));
                idx_t *i2 = (idx_t *)malloc((l1 + l2) * sizeof(idx_t));
                idx_t len = dtw_best_path_customstart(wps, i1, i2, l1, l2, rs, cs, s);
                check_path(i1, i2, len, l1, l2, "dtw_best_path_customstart");
                free(i1); free(i2);
            }
        } else if (k.op == 12) {
            DTWWps p = dtw_wps_parts(l1, l2, s);
            for (idx_t r = 1; r <= l1; r++) {
                idx_t cb = 0, ce = 0;
                dtw_wps_loc_columns(&p, r, &cb, &ce, l1, l2);
                for (idx_t c = cb; c < ce; c++) {
                    idx_t loc = dtw_wps_loc(&p, r, c, l1, l2);
                    if (loc < 0 || loc >= wl) semantic_fail("dtw_wps_loc outside the compact array");
                }
            }
            idx_t rb = k.a % (l1 + 1), re = rb + 1 + k.b % (l1 + 1 - rb);
            idx_t cb = k.c % (l2 + 1), ce = cb + 1 + k.d % (l2 + 1 - cb);
            dtw_wps_negativize(&p, wps, l1, l2, rb, re, cb, ce, (k.a & 64) != 0);
            dtw_wps_positivize(&p, wps, l1, l2, rb, re, cb, ce, (k.a & 32) != 0);
            idx_t mr = 0, mc = 0;
            dtw_wps_max(&p, wps, &mr, &mc, l1, l2);
            dtw_wps_negativize_value(&p, wps, l1, l2, 1 + k.a % l1, 1 + k.b % l2);
            dtw_wps_positivize_value(&p, wps, l1, l2, 1 + k.a % l1, 1 + k.b % l2);
        }
        free(wps);
        break;
    }
    case 7: {   /* bounds */
        seq_t lb = lb_keogh(s1, l1, s2, l2, s);
        seq_t ub = s->inner_dist ? ub_euclidean_euclidean(s1, l1, s2, l2) : ub_euclidean(s1, l1, s2, l2);
        seq_t e = s->inner_dist ? euclidean_distance_euclidean(s1, l1, s2, l2) : euclidean_distance(s1, l1, s2, l2);
        if (lb < 0 || ub < 0 || e != ub) semantic_fail("bounds");
        break;
    }
    case 13: {  /* n-D bounds */
        int nn = 1 + k.a % 3;
        free(s1); free(s2);
        k.ndim = nn;
        s1 = series(&k, l1, 0); s2 = series(&k, l2, 101);
        seq_t ub = s->inner_dist ? ub_euclidean_ndim_euclidean(s1, l1, s2, l2, nn) : ub_euclidean_ndim(s1, l1, s2, l2, nn);
        seq_t e = s->inner_dist ? euclidean_distance_ndim_euclidean(s1, l1, s2, l2, nn)
                                : euclidean_distance_ndim(s1, l1, s2, l2, nn);
        if (ub < 0 || e != ub) semantic_fail("ndim bounds");
        break;
    }
    case 8: case 9: {   /* distance matrices (serial / parallel code path) with a valid block */
        int n = k.nser;
        idx_t lens[8];
        seq_t *ptrs[8];
        int eq = (k.a & 1);
        for (int i = 0; i < n; i++) {
            lens[i] = eq ? l1 : 1 + (l1 + i * 3) % MAXL;
            ptrs[i] = series(&k, lens[i], 200 + 17 * i);
        }
        DTWBlock blk = dtw_block_empty();
        if (k.b & 1) {
            blk.rb = k.c % n; blk.re = blk.rb + 1 + (k.c / 8) % (n - blk.rb);
            blk.cb = k.d % n; blk.ce = blk.cb + 1 + (k.d / 8) % (n - blk.cb);
            blk.triu = (k.b & 2) ? false : true;
        }
        DTWBlock b2 = blk;
        idx_t len = dtw_distances_length(&b2, n, n);
        seq_t *out = (seq_t *)malloc((len ? len : 1) * sizeof(seq_t));
        idx_t r;
        b2 = blk;
        if (k.op == 8) {
            if (nd == 1) r = dtw_distances_ptrs(ptrs, n, lens, out, &b2, s);
            else r = dtw_distances_ndim_ptrs(ptrs, n, lens, nd, out, &b2, s);
        } else {
            if (nd == 1) r = dtw_distances_ptrs_parallel(ptrs, n, lens, out, &b2, s);
            else r = dtw_distances_ndim_ptrs_parallel(ptrs, n, lens, nd, out, &b2, s);
        }
        if (r != len) semantic_fail("dtw_distances_* returned a length different from dtw_distances_length");
        if (eq) {
            seq_t *mat = (seq_t *)malloc((size_t)n * l1 * nd * sizeof(seq_t));
            for (int i = 0; i < n; i++) memcpy(mat + (size_t)i * l1 * nd, ptrs[i], (size_t)l1 * nd * sizeof(seq_t));
            seq_t *out2 = (seq_t *)malloc((len ? len : 1) * sizeof(seq_t));
            b2 = blk;
            if (k.op == 8) {
                if (nd == 1) r = dtw_distances_matrix(mat, n, l1, out2, &b2, s);
                else r = dtw_distances_ndim_matrix(mat, n, l1, nd, out2, &b2, s);
            } else {
                if (nd == 1) r = dtw_distances_matrix_parallel(mat, n, l1, out2, &b2, s);
                else r = dtw_distances_ndim_matrix_parallel(mat, n, l1, nd, out2, &b2, s);
            }
            if (r != len) semantic_fail("matrix form length");
            for (idx_t i = 0; i < len; i++) {
                if (!(out[i] == out2[i] || (out[i] != out[i] && out2[i] != out2[i])))
                    semantic_fail("pointer and matrix form of the distance matrix differ");
            }
            n_semantic++;
            free(mat); free(out2);
        }
        for (int i = 0; i < n; i++) free(ptrs[i]);
        free(out);
        break;
    }
    case 10: {  /* barycenter update */
        int n = k.nser;
        idx_t lens[24];
        seq_t *ptrs[24];
        int eq = (k.a & 1);
        int many = (k.a & 2) != 0;      /* 9..24 series: the bit mask spans 2-3 bytes */
        if (many) n = 9 + (int)(k.c % 16);
        for (int i = 0; i < n; i++) {
            lens[i] = eq ? l2 : 1 + (l2 + i * 5) % MAXL;
            ptrs[i] = series(&k, lens[i], 300 + 13 * i);
        }
        idx_t t = l1;
        seq_t *c = series(&k, t, 50);
        /* exactly ceil(n/8) bytes, the size the Python layer (np.packbits) hands over */
        size_t nbytes = (size_t)(n + 7) / 8;
        ba_t *mask = (ba_t *)malloc(nbytes);
        memset(mask, 0, nbytes);
        int any = 0;
        if (!many) {
            for (int i = 0; i < n; i++) if ((k.b >> i) & 1) { bit_set(mask, i); any = 1; }
            if (!any) bit_set(mask, 0);
        } else {
            /* one byte carries a drawn pattern, the others are all-selected or all-unselected: masks whose first,
               middle or last byte is zero */
            size_t sel = (size_t)(k.d % nbytes);
            for (int i = 0; i < n; i++) {
                int on = ((size_t)(i / 8) == sel) ? (int)((k.b >> (i % 8)) & 1) : (int)((k.a & 4) != 0);
                if (on) { bit_set(mask, i); any = 1; }
            }
            if (!any) bit_set(mask, (int)(sel * 8));
        }
        DTWSettings sc = *s;
        sc.psi_1b = sc.psi_1e = sc.psi_2b = sc.psi_2e = 0;
        sc.max_dist = 0; sc.use_pruning = false; sc.max_step = 0;
        /* the window must leave an admissible path for every pair (documented use of dba) */
        if (eq) {
            seq_t *mat = (seq_t *)malloc((size_t)n * l2 * nd * sizeof(seq_t));
            for (int i = 0; i < n; i++) memcpy(mat + (size_t)i * l2 * nd, ptrs[i], (size_t)l2 * nd * sizeof(seq_t));
            dtw_dba_matrix(mat, n, l2, c, t, mask, 0, nd, &sc);
            free(mat);
        } else {
            dtw_dba_ptrs(ptrs, n, lens, c, t, mask, 0, nd, &sc);
        }
        for (int i = 0; i < n; i++) free(ptrs[i]);
        free(c); free(mask);
        break;
    }
    case 11: {  /* affinity */
        idx_t wl = dtw_settings_wps_length(l1, l2, s);
        seq_t *wps = (seq_t *)malloc(wl * sizeof(seq_t));
        DTWSettings sc = *s;
        sc.max_dist = 0; sc.max_step = 0; sc.use_pruning = false; sc.inner_dist = 0;
        seq_t tau = 0.36, delta = -0.36, delta_factor = 0.9, gamma = 1.0;
        int triu = (k.a & 1);   /* also for unequal lengths */
        if (nd == 1) dtw_warping_paths_affinity(wps, s1, l1, s2, l2, true, true, k.psi_neg, triu,
                                                gamma, tau, delta, delta_factor, &sc);
        else dtw_warping_paths_affinity_ndim(wps, s1, l1, s2, l2, true, true, k.psi_neg, triu, nd,
                                             gamma, tau, delta, delta_factor, &sc);
        seq_t *full = (seq_t *)malloc((l1 + 1) * (l2 + 1) * sizeof(seq_t));
        dtw_expand_wps_affinity(wps, full, l1, l2, &sc);
        free(full);
        DTWWps p = dtw_wps_parts(l1, l2, &sc);
        idx_t mr = 0, mc = 0;
        dtw_wps_max(&p, wps, &mr, &mc, l1, l2);
        if (mr >= 1 && mc >= 1 && mr <= l1 && mc <= l2) {
            idx_t *i1 = (idx_t *)malloc((l1 + l2) * sizeof(idx_t));
            idx_t *i2 = (idx_t *)malloc((l1 + l2) * sizeof(idx_t));
            idx_t len = dtw_best_path_affinity(wps, i1, i2, l1, l2, mr, mc, &sc);
            check_path(i1, i2, len, l1, l2, "dtw_best_path_affinity");
            free(i1); free(i2);
        }
        free(wps);
        break;
    }
    default:
        break;
    }
    free(s1); free(s2);
    return 0;
}

#ifdef FUZZ
int LLVMFuzzerInitialize(int *argc, char ***argv) {
    const char *e = getenv("C08_EXCLUDE");
    if (e) { excl_psi_band_wps = strstr(e, "psi_band_wps") != NULL; excl_slice = strstr(e, "slice") != NULL; }
    __sanitizer_set_death_callback(on_death);
    return 0;
}
int LLVMFuzzerTestOneInput(const uint8_t *data, size_t size) { return run_case(data, size); }
#else
static unsigned long long rng_state;
static unsigned rnd(void) { rng_state = rng_state * 6364136223846793005ULL + 1442695040888963407ULL; return (unsigned)(rng_state >> 33); }

int main(int argc, char **argv) {
    const char *e = getenv("C08_EXCLUDE");
    if (e) { excl_psi_band_wps = strstr(e, "psi_band_wps") != NULL; excl_slice = strstr(e, "slice") != NULL; }
    (void)excl_misc;
    __sanitizer_set_death_callback(on_death);
    if (argc >= 3 && strcmp(argv[1], "one") == 0) {
        uint8_t buf[256]; size_t n = 0;
        const char *h = argv[2];
        while (h[0] && h[1] && n < sizeof(buf)) { unsigned v; sscanf(h, "%2x", &v); buf[n++] = (uint8_t)v; h += 2; }
        run_case(buf, n);
        fprintf(stderr, "C08-OK exec=%lu skipped=%lu\n", n_exec, n_skipped);
        return 0;
    }
    if (argc >= 6 && strcmp(argv[1], "sweep") == 0) {
        /* deterministic sweep: complete structural lattice for l1,l2 <= maxl over
           op x l1 x l2 x window x psi-pattern x flags, 'draws' value draws each, sharded by (l1,l2,op) */
        int shard = atoi(argv[2]), nshards = atoi(argv[3]);
        unsigned long long seed = strtoull(argv[4], 0, 10);
        int maxl = atoi(argv[5]);
        int draws = argc >= 7 ? atoi(argv[6]) : 1;
        static const uint8_t flagset[] = {0, 1, 2, 4, 8, 16, 17, 32, 36, 48, 64, 96, 6, 20, 24, 1 | 32 | 64};
        unsigned long idx = 0;
        for (int op = 0; op < NOPS; op++)
        for (int l1 = 1; l1 <= maxl; l1++)
        for (int l2 = 1; l2 <= maxl; l2++) {
            if ((idx++ % nshards) != (unsigned long)shard) continue;
            int mx = l1 > l2 ? l1 : l2;
            for (int w = 0; w <= mx + 1; w++)
            for (int pp = 0; pp < 81; pp++) {     /* each psi entry in {0, 1, len-1, len}: 3^4 patterns of {0,1,len} + extras below */
                int q[4]; int t = pp;
                for (int z = 0; z < 4; z++) { q[z] = t % 3; t /= 3; }
                int lens[4] = {l1, l1, l2, l2};
                uint8_t psi[4];
                for (int z = 0; z < 4; z++) psi[z] = q[z] == 0 ? 0 : (q[z] == 1 ? 1 : lens[z]);
                for (unsigned fi = 0; fi < sizeof(flagset); fi++)
                for (int dr = 0; dr < draws; dr++) {
                    uint8_t in[16 + 40];
                    rng_state = seed * 1000003ULL + idx * 7919ULL + (unsigned long long)w * 104729ULL + pp * 1299709ULL + fi * 15485863ULL + dr;
                    in[0] = op; in[1] = l1 - 1; in[2] = l2 - 1; in[3] = w;
                    in[4] = psi[0]; in[5] = psi[1]; in[6] = psi[2]; in[7] = psi[3];
                    if (pp % 7 == 3 && l1 > 2) in[5] = l1 - 1;
                    if (pp % 7 == 5 && l2 > 2) in[7] = l2 - 1;
                    in[8] = flagset[fi];
                    in[9] = rnd() % 3;
                    in[10] = rnd(); in[11] = rnd(); in[12] = rnd(); in[13] = rnd(); in[14] = rnd(); in[15] = 0;
                    for (int v = 0; v < 40; v++) in[16 + v] = 96 + rnd() % 64;
                    run_case(in, sizeof(in));
                }
            }
        }
        fprintf(stderr, "C08-OK exec=%lu skipped=%lu nontrivial=%lu semantic=%lu\n", n_exec, n_skipped, n_nontrivial, n_semantic);
        return 0;
    }
    fprintf(stderr, "usage: %s one <hex> | sweep <shard> <nshards> <seed> <maxl> [draws]\n", argv[0]);
    return 2;
}
#endif
