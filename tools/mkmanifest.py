#!/venv/bin/python
"""Regenerates MANIFEST.json from the table below (keeps it schema-valid at all times)."""
import json
import os
import sys

ROOT = os.path.dirname(os.path.dirname(os.path.abspath(__file__)))
BASELINE = ("cd /repo && /venv/bin/python -m pytest -ra -q -p no:cacheprovider --timeout=900 "
            "--continue-on-collection-errors")

# id -> (technique, level text, level note, design ref)
CHECKS_TAIL = {
    'C20': ('property-based testing (Hypothesis): byte-level input snapshots, differential runs across container '
            'representations, repeated calls, generated call histories over shared series / option dicts / model objects '
            'vs fresh copies, NumPy-free child interpreter',
            'A registry of ~30 public routines x container representations drawn per argument (lists, tuples, array.array, '
            'contiguous / strided / reversed / F-ordered arrays, 2-D forms, SeriesContainer): inputs byte-identical after '
            'the call, result equal to the canonical-container result, second call identical; histories sharing objects '
            'must equal runs on fresh copies.',
            'float64 series only; K-means seeded inside the case; routine-specific value correctness belongs to the other '
            'properties (a canonical call that raises is skipped and counted).', 'DESIGN.md §3 C20'),
}
CHECKS = {
    'C01': ('property-based testing (Hypothesis) against an independent DP reference + exhaustive path '
            'enumeration on small cases',
            'Generated-input search: thousands (quick) to hundreds of thousands (thorough) of (series, settings) '
            'tuples compared with a reference DP that shares no optimisation with the library, and with literal '
            'enumeration of all warping paths for small cases; also in an interpreter where numpy cannot be '
            'imported. Shows the property on every explored input, cannot show absence of violations.',
            'Trusts vlib/ref.py (self-validated against brute-force path enumeration on every small case), '
            'Hypothesis, CPython float arithmetic; lengths <= 14, |values| <= 1e3.',
            'DESIGN.md §3 C01'),
    'C02': ('differential property-based testing (Hypothesis): every C entry point vs the Python engine, '
            'independent reference as arbiter',
            'Generated-input search over (series, settings, ndim, off-encoding) tuples; each case is evaluated by the '
            'Python engine and by every applicable C entry point (public wrappers, Cython module functions, '
            'distance-matrix entries, exported kernels via ctypes) and the values must agree (both infinite or 1e-9 '
            'relative). Exploration only: agreement is shown on the explored inputs.',
            'Trusts Hypothesis, ctypes struct layout of DTWSettings (checked against dd_dtw.h), numpy; lengths <= 14, '
            '|values| <= 1e3; max_length_diff=0 and only_ub combined with max_length_diff are outside the domain '
            '(not expressible / not fixed by a property).',
            'DESIGN.md §3 C02'),
    'C03': ('metamorphic property-based testing (Hypothesis): every routine with vs without max_dist / use_pruning, '
            'thresholds constructed from reference distances',
            'Generated (series triple, settings) cases; for each Python/C routine (distance, warping_paths full/compact, '
            'distance matrices, n-D variants) the result with max_dist=m must be the unbounded value or inf according to '
            'the side of m, and use_pruning must be bitwise neutral wherever ED is a valid bound; inputs are biased to '
            'DTW == ED. The unbounded value is cross-checked against the independent reference.',
            'Trusts vlib/ref.py for constructing thresholds and for the non-triviality measurement; thresholds within '
            '1e-6 relative of the distance are excluded (as the property does).',
            'DESIGN.md §3 C03'),
    'C04': ('property-based testing (Hypothesis): validity predicate over the returned matrix against an independent '
            'cell-wise reference, four engines (Python, C full, C compact+expand, C compact+slice)',
            'Generated (series, settings, keep_int_repr, psi_neg, max_dist, slice) cases; every cell of every engine\'s '
            'matrix is compared with the reference optimum under exactly the freedom the property grants (cells above '
            'max_dist, -1 markers), the compact forms are expanded through the exported C functions into buffers of the '
            'advertised size surrounded by canaries.',
            'Trusts vlib/ref.py (self-validated in C01), ctypes struct layouts; lengths <= 12; two open findings '
            '(F04a psi wider than band in the C kernels, F04b partial slices) exclude their regions.',
            'DESIGN.md §3 C04'),
    'C05': ('property-based testing (Hypothesis): validity predicate over every returned path (any optimal path accepted) '
            'and re-accumulated cost against the reported and the reference distance',
            'Generated cases x ~10 path entry points in both engines (incl. compact matrices and custom start cells '
            'through ctypes with canaries around the l1+l2 index arrays); each path must be contiguous, in band, within '
            'max_step, start/end in the relaxed corners and cost exactly the distance; warping_path_penalty (both engines) and '
            'warping_amount included.',
            'Trusts vlib/ref.py; two open findings (F05a psi wider than band in C, F05b backtracking from skipped end '
            'cells) exclude narrow regions computed from the reference table.',
            'DESIGN.md §3 C05'),
    'C06': ('property-based testing (Hypothesis) + exhaustive enumeration of all blocks for n <= 5/7 against a row-major '
            'pair list written from the property text',
            'Generated collections/containers/blocks/forms for both engines compared entry by entry with the reference '
            'pair list and reference distances; every block x flag for small n is enumerated completely for the '
            'bookkeeping helpers (Python with and without NumPy, C length and loop order through ctypes); per-series psi lists; '
            'distances_array_to_matrix and distance_matrix_func routes.',
            'Trusts vlib/ref.py for entry values; the exhaustive leg is complete only for the stated n.',
            'DESIGN.md §3 C06'),
    'C07': ('schedule-owning harness: cooperative replacement of the OpenMP runtime (GOMP ABI on ucontext coroutines, '
            'pre-emption at every basic block via -fsanitize-coverage=trace-pc) driven by Hypothesis-generated schedule '
            'scripts; plus real-libgomp / multiprocessing differential runs and an exhaustive plan-invariant leg',
            'Four legs: (coop) all six *_parallel C functions under generated thread counts 1..64, chunk scripts and '
            'basic-block interleavings, compared bitwise with their serial counterparts into canary-guarded buffers; '
            '(omp) the staged extension with the real libgomp at 1..64 threads in a separate interpreter, repeated, '
            'bitwise vs serial; (mp) multiprocessing pools 1..16 for both single-pair engines; (plan) every block for '
            'n <= 6/7: the per-row output slots are disjoint and tile the output.',
            'Pre-emption is at basic-block (not instruction) granularity and follows GCC\'s lowering; weak-memory effects '
            'are out of reach; the real-runtime legs only sample schedules.',
            'DESIGN.md §3 C07, §2.8b'),
    'C08': ('sanitizer-instrumented native harness: exhaustive structural sweep (gcc ASan+UBSan+OpenMP) and coverage-guided '
            'fuzzing (clang libFuzzer+ASan+UBSan) of the repository C sources through one structured entry function',
            'native/c08_harness.c decodes bytes into structured arguments for 14 groups of exported C routines, allocates '
            'every buffer at exactly the documented size and runs under ASan/UBSan with recovery off; the sweep enumerates '
            'the complete lattice (lengths <= 4 quick / 6 thorough) and libFuzzer searches lengths <= 12; a semantic '
            'side-oracle rides along. Any report is a violation whose replay is the single failing input.',
            'Trusts the sanitizers and the harness decoding; executed paths only; uninitialised reads, idx_t overflow '
            'sizes and lengths > 12 are not explored; one open finding (F08b slices) is excluded by a harness switch.',
            'DESIGN.md §3 C08, §2.8a'),
    'C09': ('property-based testing (Hypothesis): inequalities against the reference DTW and equality of every bound '
            'implementation with an independent reference bound',
            'Generated pairs with sign classes, unequal lengths, windows, ndim; LB_Keogh <= DTW and ED >= DTW are checked '
            'against the reference, and each of the ~10 implementations/entry points of the bounds (Python, Cython, '
            'exported C through ctypes, only_ub) must equal the reference bound.',
            'Trusts vlib/ref.py bounds (the run itself asserts LB <= DTW <= ED on the reference side).',
            'DESIGN.md §3 C09'),
    'C10': ('metamorphic property-based testing (Hypothesis): relations between pairs of calls, no reference involved',
            'Generated pairs x settings x comparable variations; identity, non-negativity, symmetry with swapped psi, '
            'monotonicity in window/psi/max_step/penalty, window=1 == ED, distance-matrix symmetry, both engines, ndim 1-2; the '
            'swap law also through the matrix routine (serial, multiprocessing and OpenMP engines).',
            'Relations only; a defect that preserves all relations is invisible here (C01/C02 cover values).',
            'DESIGN.md §3 C10'),
    'C11': ('property-based testing (Hypothesis) of the n-D routines against the univariate reference DP with vector point '
            'distances; C04/C05/C06 predicates reused; d=1 differential against the univariate routines',
            'Generated (length x d) series, d in 1..4, all settings, containers (2-D arrays, list of 2-D arrays, 3-D array, '
            'lists of lists of lists); distance, pruning, upper bound, cost matrix, path and distance matrix of both '
            'engines checked against the reference; for d=1 results must equal the univariate routines.',
            'Trusts vlib/ref.py; findings F11a/F11b (n-D instances of F04a/F05b) exclude their regions.',
            'DESIGN.md §3 C11'),
    'C12': ('property-based testing (Hypothesis) of one DBA step and the loop: defining equation under unique optimal paths '
            '(reference DP with exact tie counting), otherwise invariants that hold for every choice of optimal paths',
            'Generated collections / masks / initial averages / windows / penalties for Python dba, dba(use_c), '
            'dtw_cc.dba(_ndim) and dba_loop: mean of aligned points (unique paths), range, fixed point, independence of '
            'unselected series (bitwise; also without an initial average), monotone fit w.r.t. the reference DTW, step bound, c '
            'untouched.',
            'Trusts vlib/ref.py incl. the tie counting; default inner distance, no psi/max_step.',
            'DESIGN.md §3 C12'),
    'C13': ('property-based testing (Hypothesis) against an O(n^2) reference (min over start points of the reference DTW) '
            'plus generated operation histories compared with fresh objects',
            'Generated (query, series, penalty, ndim, iterator parameters): matching function, best match (segment, path, '
            'value), k-best iterator invariants, Python = C; histories of open/advance/best_match/align operations on one '
            'alignment object must match fresh objects and leave its matrices bitwise unchanged. Iterators are consumed '
            'through a bound so that a non-terminating iterator is a failure, not a hang. get_match / matching_function_* for '
            'every end point, *_fast spellings, best_matches / best_matches_knee as prefixes of the k-best sequence.',
            'Trusts vlib/ref.py; lengths <= 10.', 'DESIGN.md §3 C13'),
    'C14': ('property-based testing (Hypothesis) against exhaustive search, generated call histories vs fresh objects, '
            'pruning activity measured by wrapping the distance / lower-bound functions the search module sees',
            'Generated (query, candidates with ties, k, window, penalty, constructed max_dist/max_value, use_lb, use_c, ndim) '
            'and histories of kbest_matches/best_match/align with k going up, down and to None; answers must equal the '
            'k smallest reference distances (indices up to ties) and the answers of a fresh object.',
            'Trusts vlib/ref.py; thresholds never within 1e-6 of a candidate distance.', 'DESIGN.md §3 C14'),
    'C15': ('property-based testing (Hypothesis): structural invariants of the returned clustering / linkage, a replay model '
            'for tie-free matrices, SciPy as reference for LinkageTree, fit histories vs fresh models',
            'Generated series and synthetic distance matrices (ties, inf entries), max_dist incl. exact entries, hooks, three '
            'models; partition, monotone bounded merges equal to matrix entries, no mergeable prototypes left, tree shape, '
            'scipy equality; fit A/B/A on one model equals fresh models.',
            'Trusts scipy.cluster.hierarchy.linkage and vlib/ref.py.', 'DESIGN.md §3 C15'),
    'C16': ('property-based testing (Hypothesis) with seeded library randomness: structural invariants and a nearest-mean '
            'check against the reference DTW',
            'Generated data sets (duplicates), k, seeds, initialisation modes, drop_stddev, max_it, options, engines; keys, '
            'partition, k means, every series nearest to its own mean under the reference DTW, iteration bound, monitor callback.',
            'Trusts vlib/ref.py; numpy/random seeded inside each case.', 'DESIGN.md §3 C16'),
    'C17': ('property-based testing (Hypothesis) + exhaustive enumeration of a small sub-space against an independent '
            'alignment DP and brute-force alignment enumeration',
            'Generated sequences/scoring schemes/traceback orders plus the complete sub-space {A,B}^(<=4) x {A,B}^(<=4) x '
            '6 orders; value compared with an independent DP (itself validated by enumerating all alignments), '
            'alignment validated column by column and re-scored.',
            'Trusts vlib/props/c17.py reference DP (self-checked against brute force for |s1|+|s2|<=8); dyadic scores.',
            'DESIGN.md §3 C17'),
    'C18': ('property-based testing (Hypothesis) against an independent evaluation of the documented recurrence (global and '
            'cell-local), generated match histories checked against the untouched reference matrix and fresh objects',
            'Generated (series, gamma, tau, delta, delta_factor, penalty, window, only_triu) for Python, C full, C compact + '
            'expansion; histories of kbest_matches / kbest_matches_store / reset on one LocalConcurrences object (both '
            'representations): paths contiguous, monotone, through positive cells, no reuse within an epoch, restart = fresh.',
            'math.exp vs np.exp differences are within the 1e-9 tolerance; 1-D series; psi not generated.', 'DESIGN.md §3 C18'),
    'C19': ('property-based testing (Hypothesis) against closed-form formulas, monotonicity/range predicates and a '
            'round trip through return_params',
            'Generated arrays (shapes, zeros, duplicates, single elements) x methods x explicit/derived parameters x '
            'cover_quantile forms x keep_sign; element-wise comparison with the documented formula evaluated with '
            'math, monotonicity over all pairs, range [0,1], zero -> maximum, round trip.',
            'Trusts the math module and an own quantile implementation; values 0 or in [1e-3,1e6]; positive scales.',
            'DESIGN.md §3 C19'),
}
NOT_YET = {}
CHECKS.update(CHECKS_TAIL)

def main():
    props = [json.loads(l) for l in open(os.path.join(ROOT, 'properties.jsonl'))]
    checks = []
    na = []
    for p in props:
        pid = p['id']
        if pid in CHECKS:
            tech, text, note, ref = CHECKS[pid]
            checks.append({
                'property_id': pid,
                'quick_cmd': '/venv/bin/python check.py %s --tier quick' % pid,
                'thorough_cmd': '/venv/bin/python check.py %s --tier thorough' % pid,
                'evidence_file': 'evidence/%s.json' % pid,
                'replay_cmd_template': '/venv/bin/python check.py %s --replay {path}' % pid,
                'engine': 'native-asan' if pid == 'C08' else ('coop-omp' if pid == 'C07' else 'pbt-core'),
                'level_claimed': {'category': 'exploration', 'text': text, 'design_ref': ref},
                'level_note': note,
                'technique': tech,
            })
        else:
            na.append({'property_id': pid, 'reason': NOT_YET.get(pid, 'check not built yet in this session '
                                                                 '(planned, see DESIGN.md §3); not claimed until it runs')})
    man = {
        'version': 1,
        'setup_cmd': '/venv/bin/pip install --no-index --find-links /opt/veriftools/wheels hypothesis >/dev/null 2>&1; '
                     '/venv/bin/python -c "import hypothesis, numpy, scipy, Cython"',
        'hooks': {
            'guard': 'DTAIDISTANCE_VERIF',
            'enable': 'no source hooks exist: checks stage and build the unmodified working tree of /repo '
                      '(vlib/stage.py); the guard variable is nominal',
            'baseline_off_cmd': BASELINE,
            'source_commits': [],
            'add_only': True,
        },
        'engines': [
            {'name': 'pbt-core', 'path': 'vlib/', 'serves_properties': sorted(CHECKS),
             'kind_free_text': 'Hypothesis-driven generated search with reference oracles, collect->bucket->shrink, '
                               'JSON replay files, sharded over 16 processes'},
            {'name': 'coop-omp', 'path': 'native/omp_coop.c', 'serves_properties': ['C07'],
             'kind_free_text': 'cooperative GOMP runtime on ucontext + trace-pc pre-emption: schedules are generated values'},
            {'name': 'native-asan', 'path': 'native/c08_harness.c', 'serves_properties': ['C08'],
             'kind_free_text': 'clang libFuzzer + gcc sweep of the repository C sources under ASan/UBSan, one structured '
                               'entry function, buffers at exactly the documented sizes'},
        ],
        'checks': checks,
        'not_applicable': na,
        'notes': 'All checks: cwd /verif, VERIF_SEED honoured, exit 0/1/2 (2 = harness error or inconclusive, never a '
                 'violation). Known findings: KNOWN_FINDINGS.jsonl. fix: commits in /repo are listed there as fixed.',
    }
    with open(os.path.join(ROOT, 'MANIFEST.json'), 'w') as f:
        json.dump(man, f, indent=1)
    try:
        import jsonschema
        jsonschema.validate(man, json.load(open('/root/.vp/MANIFEST.schema.json')))
        print('MANIFEST.json valid; %d checks, %d not claimed' % (len(checks), len(na)))
    except ImportError:
        print('MANIFEST.json written (jsonschema not available to validate)')

if __name__ == '__main__':
    main()
