#!/venv/bin/python
"""Confirm a seeded change produced by a sub-agent and run the checks against it.

  tools/seed_eval.py <seed-id> <worktree> <property> [more properties to run ...]

1. copies OUT/patch.diff, OUT/demo.py, OUT/meta.json from the agent's worktree to /verif/seeded/<seed-id>/;
2. confirms in the worktree (never in /repo): the change compiles, the demonstration exits 1 with it and 0 without it,
   and the repository's pinned stable tests still pass with it;
3. applies the patch to /repo (git apply), runs the quick check of every listed property, and undoes it straight
   afterwards (git checkout -- .);
4. records everything in /verif/seeded/<seed-id>/meta.json.
"""
import json
import os
import shutil
import subprocess
import sys
import time
import xml.etree.ElementTree as ET

ROOT = os.path.dirname(os.path.dirname(os.path.abspath(__file__)))
PY = '/venv/bin/python'


def sh(cmd, cwd=None, env=None, timeout=3600):
    r = subprocess.run(cmd, shell=True, cwd=cwd, env=env, stdout=subprocess.PIPE, stderr=subprocess.STDOUT, text=True,
                       timeout=timeout)
    return r.returncode, r.stdout


def checks_only(sid, props):
    """Re-run checks against an already confirmed seeded change (after a check was strengthened)."""
    out = os.path.join(ROOT, 'seeded', sid)
    rec = json.load(open(os.path.join(out, 'meta.json')))
    patch = os.path.join(out, 'patch.diff')
    wt = os.environ.get('SEED_WORKTREE')
    env = None
    if wt:
        # run the checks against the scratch worktree that has exactly this patch applied (VERIF_REPO), so that several
        # seeded changes can be evaluated side by side; /repo is not touched at all
        rc, o = sh('git -C %s checkout -- src && git -C %s apply %s' % (wt, wt, patch))
        if rc != 0:
            print('patch does not apply to the worktree:', o)
            return 2
        env = dict(os.environ)
        env['VERIF_REPO'] = wt
        rec['what_was_run'] = rec.get('what_was_run', '').replace(
            '`git -C /repo apply patch.diff`, quick checks, `git -C /repo checkout -- .`',
            'quick checks with VERIF_REPO=<scratch worktree with exactly patch.diff applied> (evaluated side by side with '
            'other seeded changes; /repo untouched)')
    else:
        rc, o = sh('git -C /repo status --porcelain --untracked-files=no')
        if o.strip():
            print('refusing: /repo has uncommitted changes')
            return 2
        rc, o = sh('git -C /repo apply %s' % patch)
        if rc != 0:
            print('patch does not apply to /repo:', o)
            return 2
    try:
        for p in props:
            t0 = time.time()
            rc, o = sh('%s check.py %s --tier quick' % (PY, p), cwd=ROOT, timeout=3000, env=env)
            lines = [l for l in o.splitlines() if 'new failure bucket' in l or l.startswith('VIOLATION') or 'regression' in l
                     or l.startswith('HARNESS')]
            prev = rec['checks'].get(p)
            rec['checks'][p] = {'exit': rc, 'wall_s': round(time.time() - t0), 'detected': rc == 1,
                                'report': [l.strip()[:260] for l in lines[:8]]}
            if prev is not None and not prev.get('detected'):
                rec['checks'][p]['before_strengthening'] = {'exit': prev['exit'], 'detected': False}
            for l in o.splitlines():
                if l.startswith('VIOLATION') and 'replay=' in l:
                    pth = l.split('replay=')[1].strip()
                    if '/fixed/' not in pth and '/known/' not in pth:
                        dst = os.path.join(out, 'found_by_%s.json' % p)
                        if not os.path.exists(dst):
                            shutil.copy(os.path.join(ROOT, pth), dst)
                            rec['checks'][p]['replay_kept'] = os.path.relpath(dst, ROOT)
                        os.remove(os.path.join(ROOT, pth))
            print('  check', p, 'exit', rc, 'DETECTED' if rc == 1 else 'MISSED')
    finally:
        if not wt:
            sh('git -C /repo checkout -- .')
            sh('git -C %s checkout -- evidence' % ROOT)
    json.dump(rec, open(os.path.join(out, 'meta.json'), 'w'), indent=1)
    return 0


def main():
    if sys.argv[1] == '--checks-only':
        return checks_only(sys.argv[2], sys.argv[3:])
    sid, wt, props = sys.argv[1], sys.argv[2], sys.argv[3:]
    out = os.path.join(ROOT, 'seeded', sid)
    os.makedirs(out, exist_ok=True)
    for f in ('patch.diff', 'demo.py', 'meta.json'):
        shutil.copy(os.path.join(wt, 'OUT', f), os.path.join(out, f if f != 'meta.json' else 'agent_meta.json'))
    patch = os.path.join(out, 'patch.diff')
    ptxt = open(patch).read()
    native = any(x in ptxt for x in ('.c\n', '.h\n', '.pyx\n', '.c ', '.pyx ', '.h '))
    env = dict(os.environ)
    env['PYTHONPATH'] = os.path.join(wt, 'src')
    rec = {'seed_id': sid, 'property': props[0], 'touches_native_code': native, 'ran': []}

    def build():
        if native:
            rc, o = sh('%s setup.py build_ext --inplace -j 4' % PY, cwd=wt, env=env)
            rec['ran'].append('build_ext --inplace (rc=%d)' % rc)
            return rc
        return 0

    def demo():
        rc, o = sh('%s OUT/demo.py' % PY, cwd=wt, env=env, timeout=1800)
        return rc, o[-400:]
    # state: change applied?
    # always start from the pristine sources plus exactly OUT/patch.diff (the agents' worktrees share one git stash, and
    # two of them swapped changes through it), and from extension modules built from exactly these sources
    sh('git checkout -- src', cwd=wt)
    rc, o = sh('git apply %s' % patch, cwd=wt)
    rec['patch_applies'] = (rc == 0)
    if not native:
        rc, o = sh('%s setup.py build_ext --inplace -j 4' % PY, cwd=wt, env=env)
        rec['ran'].append('build_ext --inplace of the unchanged native sources (rc=%d)' % rc)
    build()
    rc1, o1 = demo()
    rec['demo_with_change'] = rc1
    # repository tests with the change
    junit = '/var/tmp/seed-junit-%s.xml' % sid
    t0 = time.time()
    sh('%s -m pytest tests -q -p no:cacheprovider --timeout=900 --junitxml=%s' % (PY, junit), cwd=wt, env=env, timeout=3000)
    B = json.load(open('/root/.vp/BASELINE.json'))
    passed = set()
    try:
        for tc in ET.parse(junit).getroot().iter('testcase'):
            if not any(ch.tag in ('failure', 'error', 'skipped') for ch in tc):
                passed.add('%s::%s' % (tc.get('classname'), tc.get('name')))
    except Exception as e:
        rec['tests_error'] = repr(e)
    missing = [t for t in B['stable_pass'] if t not in passed]
    rec['tests_with_change'] = {'stable_pass_total': len(B['stable_pass']), 'stable_pass_still_passing':
                                len(B['stable_pass']) - len(missing), 'not_passing': missing, 'all_passing': len(passed),
                                'wall_s': round(time.time() - t0)}
    if os.path.exists(junit):
        os.remove(junit)
    # without the change
    sh('git checkout -- src', cwd=wt)
    build()
    rc0, o0 = demo()
    rec['demo_without_change'] = rc0
    sh('git apply %s' % patch, cwd=wt)
    build()
    rec['confirmed'] = (rc1 != 0 and rc0 == 0 and not missing)
    if os.environ.get('SEED_CONFIRM_ONLY'):
        # confirmation only (runs entirely in the scratch worktree, so several can run side by side); the checks are run
        # afterwards, one change at a time, with --checks-only
        try:
            am = json.load(open(os.path.join(out, 'agent_meta.json')))
        except Exception:
            am = {}
        rec['checks'] = {}
        rec['breaks_property'] = props[0]
        rec['needs_to_manifest'] = am.get('needs_to_manifest')
        rec['summary'] = am.get('summary')
        rec['what_was_run'] = ('demo with/without the change in the scratch worktree (PYTHONPATH=<worktree>/src), the repository '
                               'suite with the change (pinned stable tests compared with /root/.vp/BASELINE.json), then '
                               '`git -C /repo apply patch.diff`, quick checks, `git -C /repo checkout -- .`')
        json.dump(rec, open(os.path.join(out, 'meta.json'), 'w'), indent=1)
        print(json.dumps({k: rec[k] for k in ('seed_id', 'confirmed', 'demo_with_change', 'demo_without_change')}))
        print('tests:', rec['tests_with_change']['stable_pass_still_passing'], '/', rec['tests_with_change']['stable_pass_total'])
        return 0
    # the checks against the change applied to /repo
    rc, o = sh('git -C /repo status --porcelain --untracked-files=no')
    if o.strip():
        print('refusing: /repo has uncommitted changes')
        return 2
    rc, o = sh('git -C /repo apply %s' % patch)
    if rc != 0:
        print('patch does not apply to /repo:', o)
        return 2
    rec['checks'] = {}
    try:
        for p in props:
            t0 = time.time()
            rc, o = sh('%s check.py %s --tier quick' % (PY, p), cwd=ROOT, timeout=3000)
            lines = [l for l in o.splitlines() if 'new failure bucket' in l or l.startswith('VIOLATION') or 'regression' in l
                     or l.startswith('HARNESS')]
            rec['checks'][p] = {'exit': rc, 'wall_s': round(time.time() - t0), 'detected': rc == 1,
                                'report': [l.strip()[:260] for l in lines[:8]]}
            for l in o.splitlines():
                if l.startswith('VIOLATION') and 'replay=' in l:
                    pth = l.split('replay=')[1].strip()
                    if '/fixed/' not in pth and '/known/' not in pth and not rec['checks'][p].get('replay_kept'):
                        # keep one shrunk reproducer next to the seeded change
                        dst = os.path.join(out, 'found_by_%s.json' % p)
                        try:
                            shutil.copy(os.path.join(ROOT, pth), dst)
                            rec['checks'][p]['replay_kept'] = os.path.relpath(dst, ROOT)
                        except OSError:
                            pass
                    if '/fixed/' not in pth and '/known/' not in pth:
                        try:
                            os.remove(os.path.join(ROOT, pth))
                        except OSError:
                            pass
    finally:
        sh('git -C /repo checkout -- .')
        sh('git -C %s checkout -- evidence' % ROOT)
    try:
        am = json.load(open(os.path.join(out, 'agent_meta.json')))
    except Exception:
        am = {}
    rec['breaks_property'] = props[0]
    rec['needs_to_manifest'] = am.get('needs_to_manifest')
    rec['summary'] = am.get('summary')
    rec['what_was_run'] = ('demo with/without the change in the scratch worktree (PYTHONPATH=<worktree>/src), the repository '
                           'suite with the change (pinned stable tests compared with /root/.vp/BASELINE.json), then '
                           '`git -C /repo apply patch.diff`, quick checks, `git -C /repo checkout -- .`')
    json.dump(rec, open(os.path.join(out, 'meta.json'), 'w'), indent=1)
    print(json.dumps({k: rec[k] for k in ('seed_id', 'confirmed', 'demo_with_change', 'demo_without_change')}))
    print('tests:', rec['tests_with_change']['stable_pass_still_passing'], '/', rec['tests_with_change']['stable_pass_total'])
    for p, c in rec['checks'].items():
        print('  check', p, 'exit', c['exit'], 'DETECTED' if c['detected'] else 'MISSED', '%ds' % c['wall_s'])
        for l in c['report'][:3]:
            print('     ', l[:200])
    return 0


if __name__ == '__main__':
    sys.exit(main())
