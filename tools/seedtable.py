#!/venv/bin/python
"""Regenerate the table of seeded changes in DESIGN.md (between the SEEDTABLE markers) from seeded/*/meta.json."""
import glob
import json
import os
import re

ROOT = os.path.dirname(os.path.dirname(os.path.abspath(__file__)))


def cell(t, n):
    t = re.sub(r'\s+', ' ', (t or '').replace('|', '/')).strip()
    return t[:n]


rows = ['| id | property | change | needs to manifest | detected by (quick tier) | also run, not affected |',
        '|----|----------|--------|-------------------|--------------------------|------------------------|']
for d in sorted(glob.glob(os.path.join(ROOT, 'seeded', '*'))):
    m = json.load(open(os.path.join(d, 'meta.json')))
    det, miss = [], []
    for p, c in m['checks'].items():
        if c['detected']:
            det.append(p + (' (after strengthening)' if c.get('before_strengthening') else ''))
        else:
            miss.append(p)
    own = m['property']
    det.sort(key=lambda x: (not x.startswith(own), x))
    rows.append('| %s | %s | %s | %s | %s | %s |' % (m['seed_id'], own, cell(m.get('summary'), 150),
                                                  cell(m.get('needs_to_manifest') if isinstance(m.get('needs_to_manifest'), str)
                                                       else json.dumps(m.get('needs_to_manifest')), 170),
                                                  ', '.join(det), ', '.join(miss)))
p = os.path.join(ROOT, 'DESIGN.md')
s = open(p).read()
a, b = '<!-- SEEDTABLE -->', '<!-- /SEEDTABLE -->'
i, j = s.index(a), s.index(b)
s = s[:i + len(a)] + '\n' + '\n'.join(rows) + '\n' + s[j:]
open(p, 'w').write(s)
print(len(rows) - 2, 'rows')
