#!/venv/bin/python
"""Runs the repository's pinned baseline suite (command from /root/.vp/BASELINE.json) on /repo as it is and
checks that every stable_pass test still passes. Used after every fix: commit."""
import json
import os
import subprocess
import sys
import xml.etree.ElementTree as ET

B = json.load(open('/root/.vp/BASELINE.json'))
out = '/var/tmp/dtaid-baseline-junit.xml'
cmd = B['cmd'].replace('<file>', out)
subprocess.run(cmd, shell=True, stdout=subprocess.DEVNULL, stderr=subprocess.DEVNULL)
passed = set()
for tc in ET.parse(out).getroot().iter('testcase'):
    if not any(ch.tag in ('failure', 'error', 'skipped') for ch in tc):
        passed.add('%s::%s' % (tc.get('classname'), tc.get('name')))
missing = [t for t in B['stable_pass'] if t not in passed]
extra = sorted(passed - set(B['stable_pass']))
print('baseline: %d/%d stable tests pass; %d additional tests pass' % (len(B['stable_pass']) - len(missing),
                                                                        len(B['stable_pass']), len(extra)))
for t in missing:
    print('  NOT PASSING:', t)
os.remove(out)
sys.exit(1 if missing else 0)
