#!/venv/bin/python
import json, sys, glob
for f in sorted(glob.glob('replays/%s/*.json' % sys.argv[1])):
    d = json.load(open(f)); c = d['case']
    if len(sys.argv) > 2 and sys.argv[2] not in d['bucket']:
        continue
    print(d['leg'], '|', d['bucket'], '|', d['msg'][:160])
    print('    ', {k: v for k, v in c.items() if k not in ('regime', 'exact', 'psi_repairs') and v not in (None, False)})
