#!/venv/bin/python
"""Sensitivity protocol (DESIGN.md §5): apply one textual edit to a scratch copy of /repo, run a check's quick
tier against it (VERIF_REPO), report detected / missed, remove the copy.

  tools/mutate.py C01 src/dtaidistance/dtw.py 'OLD' 'NEW' [--count N] [--tier quick]
"""
import argparse
import os
import shutil
import subprocess
import sys
import time

ROOT = os.path.dirname(os.path.dirname(os.path.abspath(__file__)))


def main():
    ap = argparse.ArgumentParser()
    ap.add_argument('prop')
    ap.add_argument('file')
    ap.add_argument('old')
    ap.add_argument('new')
    ap.add_argument('--count', type=int, default=1, help='which occurrence (1-based); 0 = all')
    ap.add_argument('--tier', default='quick')
    ap.add_argument('--patch', default=None)
    a = ap.parse_args()
    d = '/var/tmp/dtaid-mut-%d' % os.getpid()
    shutil.rmtree(d, ignore_errors=True)
    os.makedirs(d)
    try:
        def ign(dd, names):
            return [n for n in names if n.endswith(('.so', '.o', '.pyc')) or n in ('__pycache__', 'build', '.git')]
        shutil.copytree('/repo/src', os.path.join(d, 'src'), ignore=ign)
        for f in ('setup.py', 'pyproject.toml', 'README.md', 'MANIFEST.in'):
            shutil.copy(os.path.join('/repo', f), d)
        p = os.path.join(d, a.file)
        s = open(p).read()
        n = s.count(a.old)
        if n == 0:
            print('MUTATION-ERROR: pattern not found')
            return 3
        if a.count == 0:
            s = s.replace(a.old, a.new)
        else:
            idx = -1
            for _ in range(a.count):
                idx = s.index(a.old, idx + 1)
            s = s[:idx] + a.new + s[idx + len(a.old):]
        open(p, 'w').write(s)
        env = dict(os.environ)
        env['VERIF_REPO'] = d
        t0 = time.time()
        r = subprocess.run([sys.executable, os.path.join(ROOT, 'check.py'), a.prop, '--tier', a.tier], env=env,
                           stdout=subprocess.PIPE, stderr=subprocess.STDOUT, text=True, cwd=ROOT)
        lines = r.stdout.strip().splitlines()
        det = [l for l in lines if l.startswith('VIOLATION')]
        print('%s  %s: %r -> %r (occurrence %d of %d): exit=%d %s in %.1fs' % (
            'DETECTED' if r.returncode == 1 else ('MISSED' if r.returncode == 0 else 'ERROR'),
            a.prop, a.old[:50], a.new[:50], a.count, n, r.returncode, '(%d violations)' % len(det), time.time() - t0))
        for l in lines:
            if 'new failure bucket' in l or l.startswith('HARNESS') or 'regression' in l:
                print('    ' + l[:220])
        # replay files written while checking a mutant are not kept
        for l in det:
            path = l.split('replay=')[1]
            if '/fixed/' not in path and '/known/' not in path:
                try:
                    os.remove(os.path.join(ROOT, path))
                except OSError:
                    pass
        return 0
    finally:
        shutil.rmtree(d, ignore_errors=True)
        subprocess.run(['git', '-C', ROOT, 'checkout', '--', 'evidence'], stderr=subprocess.DEVNULL)


if __name__ == '__main__':
    sys.exit(main())
