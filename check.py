#!/venv/bin/python
# -*- coding: utf-8 -*-
"""CLI: ./check.py <ID> --tier quick|thorough [--replay file]   (cwd /verif; DESIGN.md §2.2)"""
import argparse
import importlib
import os
import sys

ROOT = os.path.dirname(os.path.abspath(__file__))
os.chdir(ROOT)
sys.path.insert(0, ROOT)


def main():
    ap = argparse.ArgumentParser()
    ap.add_argument('prop')
    ap.add_argument('--tier', default=os.environ.get('VERIF_TIER', 'quick'), choices=['quick', 'thorough'])
    ap.add_argument('--replay', default=None)
    a = ap.parse_args()
    os.environ.setdefault('PYTHONHASHSEED', '0')
    os.environ.setdefault('OMP_NUM_THREADS', '4')
    from vlib import runner
    try:
        mod = importlib.import_module('vlib.props.%s' % a.prop.lower())
    except ImportError as e:
        print('HARNESS-ERROR: no check for %s (%s)' % (a.prop, e))
        return 2
    return runner.main(mod, a.tier, a.replay)


if __name__ == '__main__':
    sys.exit(main())
